"""Structural dump of qlast trees for comparison (C01).

Everything is compared except:
  * `span` (source positions),
  * fields that only echo the source text or its spelling and are not part of
    "operators, nesting, names, literal values, clauses, options":
      - NestedQLBlock.text        (raw text of a migration body)
      - IfElse.python_style       (a if c else b  vs  if c then a else b)
and three spellings of the same program are identified: an empty shape `X {}`
and `X`; `p { using (E) }` and `p := E`; CREATE MIGRATION without ONTO and
`ONTO initial`.
"""
from __future__ import annotations

from edb.common import ast as cast
from edb.edgeql import ast as qlast

SKIP = {
    ('*', 'span'),
    ('NestedQLBlock', 'text'),
    ('IfElse', 'python_style'),
}
#: bodies whose order is not significant in SDL (declarative)
SDL_UNORDERED = {'commands', 'declarations'}


def canon(node, *, sdl: bool = False):
    if isinstance(node, qlast.Base):
        name = type(node).__name__
        if name in ('CreateFunction', 'AlterFunction') and getattr(node, 'nativecode', None) is None:
            # `USING EdgeQL $$ <text> $$` (legacy spelling) is `USING (<text>)`: the printer emits
            # the second form, which the parser records as `nativecode`
            code = getattr(node, 'code', None)
            if isinstance(code, qlast.FunctionCode) and code.code is not None \
                    and code.language is qlast.Language.EdgeQL and not code.from_function:
                try:
                    from edb.edgeql import parser as _qlparser
                    expr = _qlparser.parse_fragment(code.code)
                    node = node.replace(nativecode=expr, code=code.replace(code=None))
                except Exception:
                    pass
        if isinstance(node, qlast.Schema):
            # an SDL document embedded in a statement (START MIGRATION TO { ... }): declaration
            # order is not part of the program there either (the printer sorts SDL bodies)
            sdl = True
        # --- spellings of one and the same program -------------------------
        # `X {}` (empty shape) is `X`
        if isinstance(node, qlast.Shape) and not node.elements \
                and node.expr is not None:
            return canon(node.expr, sdl=sdl)
        items = []
        for f, v in cast.iter_fields(node, include_meta=False,
                                     exclude_unset=False):
            if ('*', f) in SKIP or (name, f) in SKIP:
                continue
            c = canon(v, sdl=sdl)
            if f == 'commands' and hasattr(node, 'target') \
                    and getattr(node, 'target', None) is not None:
                # `p { using (E) }` is `p := E`: the parser records E both as
                # `target` and as a SetField; the short form only as `target`
                tgt = canon(node.target, sdl=sdl)
                c = tuple(x for x in c if not (
                    x[0] == 'SetField' and dict(x[1]).get('name') == 'expr'
                    and dict(x[1]).get('value') == tgt))
            if name == 'CreateMigration' and f == 'parent':
                # no ONTO clause means ONTO initial (matched case-insensitively
                # by schema/migrations.py)
                if v is None or (isinstance(v, qlast.ObjectRef) and not v.module
                                 and v.name.lower() == 'initial'):
                    c = canon(qlast.ObjectRef(name='initial'), sdl=sdl)
            if c == ():
                c = None   # an empty list field and an unset one are the same
            if sdl and f in SDL_UNORDERED and isinstance(c, tuple):
                c = tuple(sorted(c, key=repr))
            items.append((f, c))
        return (name, tuple(items))
    if isinstance(node, (list, tuple)):
        return tuple(canon(x, sdl=sdl) for x in node)
    if isinstance(node, dict):
        return ('dict', tuple((k, canon(v, sdl=sdl)) for k, v in node.items()))
    if isinstance(node, (set, frozenset)):
        return ('set', tuple(sorted((canon(x, sdl=sdl) for x in node), key=repr)))
    if isinstance(node, (str, int, float, bool, bytes, type(None))):
        return node
    if hasattr(node, 'name') and hasattr(node, 'value'):   # enums
        return ('enum', type(node).__name__, node.name)
    return ('obj', repr(node))


def first_diff(a, b, path=''):
    """(path, a-side, b-side) of the innermost difference, indices erased in path"""
    if a == b:
        return None
    if (isinstance(a, tuple) and isinstance(b, tuple) and len(a) == 2
            and len(b) == 2 and isinstance(a[0], str) and isinstance(b[0], str)
            and isinstance(a[1], tuple) and isinstance(b[1], tuple)
            and a[0] == b[0] and a[0][:1].isupper()):
        # same node class: descend into fields
        fa, fb = dict(a[1]), dict(b[1])
        for k in fa:
            if k in fb and fa[k] != fb[k]:
                return first_diff(fa[k], fb[k], f'{path}/{a[0]}.{k}')
        return (path + '/' + a[0], _short(a), _short(b))
    if isinstance(a, tuple) and isinstance(b, tuple) and len(a) == len(b) \
            and not (a and isinstance(a[0], str) and a[0][:1].isupper()):
        for x, y in zip(a, b):
            if x != y:
                return first_diff(x, y, path + '[]')
    return (path, _short(a), _short(b))


def _short(x):
    if isinstance(x, tuple) and len(x) == 2 and isinstance(x[0], str) \
            and x[0][:1].isupper():
        return f'<{x[0]} ...>' if len(repr(x)) > 160 else repr(x)
    r = repr(x)
    return r if len(r) <= 160 else r[:157] + '...'


def count_nodes(c) -> int:
    if isinstance(c, tuple):
        n = 1 if (len(c) == 2 and isinstance(c[0], str) and c[0][:1].isupper()) else 0
        return n + sum(count_nodes(x) for x in c)
    return 0
