"""C10 — step-by-step migration equals direct migration.

Generated: chains S1..Sn (n = 2-5): S1 from G-SDL, S(i+1) = G-MUT(Si) (edits
biased towards what earlier steps touched: rename again, re-parent, retype);
optionally a final step to the empty schema.

Oracle (path independence): after every accepted step the evolved schema must
equal the schema obtained directly from Si (apply_sdl on the standard library)
under both comparators of C02; after the final migration to the empty schema no
user object remains.  A step the system rejects ends the chain (prefix checked).
"""
from __future__ import annotations

from vp_harness import core, schemaenv as SE
from vp_harness.gen import sdl as G
from vp_harness.props import c02

ID = 'C10'
LEVEL = 'exploration'
RULE = (
    'case = chain of 2-5 SDL documents (+ optional final empty schema). Non-trivial = '
    'at least 2 accepted steps after the first, with an edit kind other than pure '
    'addition in 2 different steps; distinct by hash of the chain texts.')
ASSUMPTIONS = c02.ASSUMPTIONS
MIN_EVALS = {'quick': 60, 'thorough': 2000}


def preload():
    SE.setup()


def run_case(case):
    S = SE.setup()
    cur = S['std']
    info = dict(steps=0, rejected_at=None)
    for i, text in enumerate(case['chain']):
        doc = text if text.strip() else 'module default {}'
        try:
            nxt = SE.migrate(cur, doc)
        except SE.Rejected as e:
            info['rejected_at'] = i
            info['why'] = str(e)[:80]
            break
        try:
            T = SE.target_from_sdl(doc)
        except SE.Rejected:
            info['rejected_at'] = i
            break
        cur = nxt
        info['steps'] += 1
        if i == 0:
            continue
        c = SE.compare(cur, T, f'schema after step {i} vs direct schema of S{i}',
                       deltas=(i == len(case['chain']) - 1))
        if c:
            script = SE.last_migration_script(cur) or ''
            detail = (c[1] + f'\n--- S{i-1} ---\n{case["chain"][i-1]}\n--- S{i} ---\n{text}'
                      f'\n--- migration ---\n{script}')
            tag = c02._dropped_errmessage(detail, case['chain'][i - 1], text) if 'Constraint.errmessage' in c[0] else ''
            return [(c[0] + c02._script_features(detail) + tag, detail)], info
        if not text.strip():
            from vp_harness.oracles import semdump as SD
            base = SD.semdump(SE.target_from_sdl('module default {}'))
            d = SD.semdump(cur)
            left = sorted(k for k in d if k not in base)
            if left:
                return [('leftover-after-empty:' + left[0][0],
                         f'{len(left)} user objects remain after migrating to the empty '
                         f'schema: {left[:6]}\n--- previous ---\n{case["chain"][i-1]}')], info
    return [], info


def _strategy():
    from hypothesis import strategies as st

    @st.composite
    def cases(draw):
        s = draw(G.schema_strategy())
        multi_base = draw(st.integers(0, 3)) == 0
        if multi_base:
            # a family with multiple inheritance, so that re-parenting steps can insert bases at
            # several positions of one base list
            s = G.add_multi_base_family(s, draw)
        chain = [G.render(s)]
        edits = []
        if not multi_base and draw(st.integers(0, 3)) == 0:
            # a structural family and one of its edits as two steps of the chain
            from vp_harness.gen import families as F
            fam = F.draw_family(draw, s['modules'], editable_only=True)
            sa = F.add(s, fam['A'], draw)
            edit = draw(st.sampled_from(sorted(fam['B'])))
            sb = F.replace(sa, fam, edit)
            if draw(st.integers(0, 4)) == 0:
                sa, sb = sb, sa
            chain = [G.render(s), G.render(sa), G.render(sb)] if draw(st.booleans()) else [G.render(sa), G.render(sb)]
            edits = [['family:add']] * (len(chain) - 2) + [[f'family:{fam["name"]}:{edit}']]
            s = sb
        for _ in range(draw(st.integers(0 if edits else (2 if multi_base else 1), 3 if edits else 4))):
            s, e = G.mutate(s, draw)
            chain.append(G.render(s))
            edits.append(e)
        if draw(st.booleans()):
            chain.append('')
            edits.append(['to-empty'])
        return dict(chain=chain, edits=edits)
    return cases()


def _run(rec, case):
    viol, info = run_case(case)
    nonadd = sum(1 for e in case['edits'] if any(x not in c02.PURE_ADD for x in e))
    cls = [f'steps={info["steps"]}']
    if info['rejected_at'] is not None:
        cls.append('chain-cut-by-rejection')
    if case['chain'][-1] == '':
        cls.append('ends-empty')
    rec.case({'chain': case['chain']}, nontrivial=info['steps'] >= 3 and nonadd >= 2,
             classes=cls, sample={'edits': case['edits'], 'first': case['chain'][0][:300]})
    if info['rejected_at'] is not None:
        rec.skip('step-rejected:' + info.get('why', '')[:40])
    fam = ''.join('|' + x for e in case['edits'] for x in e if x.startswith('family:') and x != 'family:add')
    for sig, detail in viol[:1]:
        rec.violation(sig + fam, case, detail)


def shard(rec, idx, nshards, seed, tier):
    SE.setup()
    n = 8 if tier == 'quick' else 150
    core.run_given(_strategy(), lambda c: _run(rec, c), seed=seed * 1000 + idx,
                   max_examples=n)


def replay(case):
    SE.setup()
    viol, _ = run_case(case)
    return '; '.join(f'{s}: {d}' for s, d in viol[:2]) or None
