"""Puts the repository under test on sys.path (no native substrate needed)."""
import os
import sys

REPO = os.environ.get('VERIF_REPO', '/repo')
if REPO not in sys.path:
    sys.path.insert(0, REPO)
