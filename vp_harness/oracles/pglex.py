"""Reference lexer for PostgreSQL's lexical rules (manual section 4.1), written
for the harness; trusted base of C18.  standard_conforming_strings = on,
server encoding UTF-8.

tokenize(text) -> list of (kind, value):
  ('string', str)   '...' with '' ; E'...' with backslash escapes ; $tag$...$tag$
  ('qident', str)   "..." with ""
  ('word', str)     unquoted identifier / keyword, ASCII-folded to lower case
  ('number', str), ('param', str), ('op', str)
Raises LexError for anything PostgreSQL's scanner would reject.
"""
from __future__ import annotations


class LexError(Exception):
    pass


# Appendix C, "reserved" in PostgreSQL (cannot be used as an identifier
# without quotes)
RESERVED = frozenset('''
all analyse analyze and any array as asc asymmetric both case cast check
collate column constraint create current_catalog current_date current_role
current_time current_timestamp current_user default deferrable desc distinct
do else end except false fetch for foreign from grant group having in
initially intersect into lateral leading limit localtime localtimestamp not
null offset on only or order placing primary references returning select
session_user some symmetric system_user table then to trailing true union
unique user using variadic when where window with
'''.split())

# "reserved (can be function or type)"
TYPE_FUNC_NAME = frozenset('''
authorization binary collation concurrently cross current_schema freeze full
ilike inner is isnull join left like natural notnull outer overlaps right
similar tablesample verbose
'''.split())

# "non-reserved (cannot be function or type)"
COL_NAME = frozenset('''
between bigint bit boolean char character coalesce dec decimal exists extract
float greatest grouping inout int integer interval least national nchar none
normalize nullif numeric out overlay position precision real row setof
smallint substring time timestamp treat trim values varchar xmlattributes
xmlconcat xmlelement xmlexists xmlforest xmlnamespaces xmlparse xmlpi xmlroot
xmlserialize xmltable
'''.split())

_WS = ' \t\n\r\f\v'
_SELF = ',()[].;:+-*/%^<>=~!@#&|`?'


def _is_ident_start(c: str) -> bool:
    return ('a' <= c <= 'z') or ('A' <= c <= 'Z') or c == '_' or ord(c) >= 0x80


def _is_ident_cont(c: str) -> bool:
    return _is_ident_start(c) or ('0' <= c <= '9') or c == '$'


def fold(word: str) -> str:
    """downcase_identifier() for a multibyte (UTF-8) server encoding: only
    ASCII letters are folded."""
    return ''.join(chr(ord(c) + 32) if 'A' <= c <= 'Z' else c for c in word)


def _std_string(text: str, i: int) -> tuple[str, int]:
    # text[i] == "'"
    out = []
    i += 1
    n = len(text)
    while True:
        if i >= n:
            raise LexError('unterminated quoted string')
        c = text[i]
        if c == "'":
            if i + 1 < n and text[i + 1] == "'":
                out.append("'")
                i += 2
                continue
            return ''.join(out), i + 1
        if c == '\0':
            raise LexError('NUL in string')
        out.append(c)
        i += 1


def _e_string(text: str, i: int) -> tuple[str, int]:
    out = []
    i += 1
    n = len(text)
    while True:
        if i >= n:
            raise LexError('unterminated quoted string')
        c = text[i]
        if c == "'":
            if i + 1 < n and text[i + 1] == "'":
                out.append("'")
                i += 2
                continue
            return ''.join(out), i + 1
        if c == '\\':
            if i + 1 >= n:
                raise LexError('unterminated quoted string')
            d = text[i + 1]
            i += 2
            simple = {'b': '\b', 'f': '\f', 'n': '\n', 'r': '\r', 't': '\t'}
            if d in simple:
                out.append(simple[d])
            elif d in '01234567':
                j = i
                digs = d
                while j < n and len(digs) < 3 and text[j] in '01234567':
                    digs += text[j]
                    j += 1
                i = j
                v = int(digs, 8) & 0xff
                if v == 0:
                    raise LexError('invalid byte 0')
                out.append(chr(v))
            elif d == 'x':
                j = i
                digs = ''
                while j < n and len(digs) < 2 and text[j] in '0123456789abcdefABCDEF':
                    digs += text[j]
                    j += 1
                if digs:
                    i = j
                    v = int(digs, 16)
                    if v == 0:
                        raise LexError('invalid byte 0')
                    out.append(chr(v))
                else:
                    out.append('x')
            elif d in 'uU':
                k = 4 if d == 'u' else 8
                digs = text[i:i + k]
                if len(digs) != k or any(
                        ch not in '0123456789abcdefABCDEF' for ch in digs):
                    raise LexError('invalid Unicode escape')
                v = int(digs, 16)
                if v == 0 or v > 0x10ffff:
                    raise LexError('invalid Unicode escape value')
                out.append(chr(v))
                i += k
            else:
                out.append(d)
            continue
        if c == '\0':
            raise LexError('NUL in string')
        out.append(c)
        i += 1


def tokenize(text: str) -> list[tuple[str, str]]:
    toks: list[tuple[str, str]] = []
    i = 0
    n = len(text)
    while i < n:
        c = text[i]
        if c in _WS:
            i += 1
            continue
        if c == '\0':
            raise LexError('NUL byte')
        if c == '-' and text.startswith('--', i):
            j = text.find('\n', i)
            i = n if j < 0 else j + 1
            continue
        if c == '/' and text.startswith('/*', i):
            depth = 1
            i += 2
            while depth:
                if i >= n:
                    raise LexError('unterminated /* comment')
                if text.startswith('/*', i):
                    depth += 1
                    i += 2
                elif text.startswith('*/', i):
                    depth -= 1
                    i += 2
                else:
                    i += 1
            continue
        if c == "'":
            v, i = _std_string(text, i)
            toks.append(('string', v))
            continue
        if c in 'eE' and i + 1 < n and text[i + 1] == "'":
            v, i = _e_string(text, i + 1)
            toks.append(('string', v))
            continue
        if c in 'bBxXnN' and i + 1 < n and text[i + 1] == "'":
            v, i = _std_string(text, i + 1)
            toks.append(('bitstring' if c in 'bBxX' else 'string', v))
            continue
        if c == '"':
            out = []
            i += 1
            while True:
                if i >= n:
                    raise LexError('unterminated quoted identifier')
                d = text[i]
                if d == '"':
                    if i + 1 < n and text[i + 1] == '"':
                        out.append('"')
                        i += 2
                        continue
                    i += 1
                    break
                if d == '\0':
                    raise LexError('NUL in identifier')
                out.append(d)
                i += 1
            if not out:
                raise LexError('zero-length delimited identifier')
            toks.append(('qident', ''.join(out)))
            continue
        if c == '$':
            # $n parameter, or $tag$ dollar quote
            j = i + 1
            if j < n and text[j].isdigit() and text[j].isascii():
                while j < n and text[j].isascii() and text[j].isdigit():
                    j += 1
                toks.append(('param', text[i + 1:j]))
                i = j
                continue
            k = j
            if k < n and (text[k] == '$' or (_is_ident_start(text[k]))):
                while k < n and text[k] != '$' and _is_ident_cont(text[k]) \
                        and text[k] != '$':
                    k += 1
                if k < n and text[k] == '$':
                    tag = text[i:k + 1]
                    end = text.find(tag, k + 1)
                    if end < 0:
                        raise LexError('unterminated dollar-quoted string')
                    toks.append(('string', text[k + 1:end]))
                    i = end + len(tag)
                    continue
            toks.append(('op', '$'))
            i += 1
            continue
        if _is_ident_start(c):
            j = i + 1
            while j < n and _is_ident_cont(text[j]):
                j += 1
            toks.append(('word', fold(text[i:j])))
            i = j
            continue
        if c.isascii() and c.isdigit():
            j = i + 1
            while j < n and text[j].isascii() and (text[j].isdigit() or text[j] == '.'):
                j += 1
            toks.append(('number', text[i:j]))
            i = j
            continue
        if c in _SELF:
            toks.append(('op', c))
            i += 1
            continue
        if c == '\\':
            toks.append(('op', c))
            i += 1
            continue
        raise LexError(f'unexpected character {c!r}')
    return toks


def self_test() -> None:
    """Examples from the manual (section 4.1.2)."""
    T = tokenize
    assert T("'Dianne''s horse'") == [('string', "Dianne's horse")]
    assert T(r"E'\\ a\'b\n\x41\101A'") == [('string', "\\ a'b\nAAA")]
    assert T("'a\\'") == [('string', 'a\\')]
    assert T('"select" FoO "A""b"') == [
        ('qident', 'select'), ('word', 'foo'), ('qident', 'A"b')]
    assert T("$$Dianne's horse$$") == [('string', "Dianne's horse")]
    assert T("$fn$ $q$x$q$ $fn$") == [('string', ' $q$x$q$ ')]
    assert T("select 'a' -- c\n, /* x /* y */ */ 1") == [
        ('word', 'select'), ('string', 'a'), ('op', ','), ('number', '1')]
    assert T("'\\x41'::bytea") == [
        ('string', '\\x41'), ('op', ':'), ('op', ':'), ('word', 'bytea')]
    for bad in ("'abc", '"abc', '""', "E'\\", "/* x"):
        try:
            T(bad)
        except LexError:
            pass
        else:
            raise AssertionError(bad)


self_test()
