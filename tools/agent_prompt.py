#!/usr/bin/env python3
"""Print the sub-agent prompt for a property id (text of the property only; nothing from /verif's machinery)."""
import json, sys
import os
pid = sys.argv[1]
WT = os.environ.get('SEED_WT_ROOT', '/tmp/wt')
OUT = os.environ.get('SEED_OUT_ROOT', '/tmp/wt-out')
n = int(sys.argv[2]) if len(sys.argv) > 2 else 2
p = next(json.loads(l) for l in open('/verif/properties.jsonl') if json.loads(l)['id'] == pid)
print(f"""You are helping to evaluate a verification effort by seeding realistic bugs. You work ONLY inside the scratch git worktree {WT}/{pid} (a checkout of the edgedb/edgedb "Gel" database server at a pinned commit) and write your results under {OUT}/{pid}/. Do NOT read, list or modify anything under /verif or /repo (treat them as non-existent); do not commit anything.

The property that should hold for this codebase:

  Title: {p['title']}
  Statement: {p['statement']}
  Quantified over: {p['quantifier']['text']}
  Code it is anchored in: {', '.join(p['anchors']['files'])}
  Mechanisms meant to make it hold: {'; '.join(m.get('name','') + ' (' + m.get('where','') + ')' for m in p['anchors']['mechanism'])}

Your task: produce {n} DIFFERENT, independent changes (each on its own, starting from the clean worktree) to the repository's source code (under edb/, Python or Rust) such that each change
  1. BREAKS the property above (a real violation of the statement, not merely a changed message or a crash on every input),
  2. still compiles/imports and still passes the repository's pinned test suite:
       cd {WT}/{pid} && /venv/bin/python -m pytest -q -p no:cacheprovider --continue-on-collection-errors tests/common tests/test_profiling.py tests/test_sourcecode.py
     (on the clean tree: 58 passed, 18 skipped, 1 failed [test_cqa_rust_clippy, needs network], 2 collection errors [native module not built]; with your change the result must be exactly the same), and
  3. is REALISTIC and SUBTLE: the kind of regression a plausible refactoring, optimisation or "small fix" could introduce, which ordinary use would NOT expose at once. It should need something specific to manifest: a particular interleaving, a fault or failure at a particular point, a multi-step sequence of operations, an unusual input/value, or two cooperating sites that each look fine alone. Do not make changes that break the very first simple use (e.g. every query fails), and do not touch tests.

For each change provide a demonstration: a small standalone Python program demo.py that exits non-zero (and prints what went wrong) WITH the change applied and exits 0 on the clean tree. Native modules are not built in this sandbox and there is no PostgreSQL and no network; read /root/subst/README.md first: it explains how to import and run the repository's Python code offline against your worktree (VERIF_REPO={WT}/{pid} PYTHONPATH=/root/subst /venv/bin/python demo.py). Code in edb/common, edb/server/connpool etc. that imports without native modules can also be run with plain PYTHONPATH={WT}/{pid}. The demo must take the worktree location from the environment variable VERIF_REPO (default {WT}/{pid}) and must not hard-code it elsewhere.

Deliverables, for k in 1..{n}: directory {OUT}/{pid}/{{k}}/ containing
  - patch.diff  : output of `git -C {WT}/{pid} diff` for that change alone (must apply with `git apply` to a clean checkout)
  - demo.py     : the demonstration (fails with the patch, passes without)
  - meta.json   : {{"property": "{pid}", "summary": "...what was changed...", "needs_to_manifest": "...the specific input/sequence/interleaving/fault needed...", "ran": ["commands you ran and their outcome, including the pinned tests with the patch and the demo with and without the patch"]}}
Verify all of that yourself (demo on clean tree passes; apply change; demo fails; pinned tests pass), then restore the worktree to clean (`git -C {WT}/{pid} checkout -- .`) before starting the next change and when you finish. Keep your scratch files out of the worktree or delete them. Your final message should list, per change, the files written and one sentence on what it breaks and what it takes to manifest.""")
