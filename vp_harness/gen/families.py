"""Hand-designed structural families for the schema-level properties (C02, C03, C10, C11).

The random schema generator (gen/sdl.py) rarely produces the shapes in which inheritance
bookkeeping and SDL dependency tracing go wrong: the same pointer declared by two bases, an
overloaded pointer whose override is later removed, three inheritance levels under a rename,
a scalar used at two depths of one collection type, functions whose validity depends on a
constraint, sub-queries followed by an abbreviated path, FOR aliases spelled like a type,
backlinks through a link inherited from another module.  Each family below is a small set of
*raw* declarations (kind 'raw': SDL text with a {NAME} placeholder for the declared name, so
that layouts can print it qualified at top level) with randomised details, added to a
generated base schema, plus the edits ("B variants") that exercise it.

    fam = draw_family(draw, mods)       # -> {'name', 'A': [(module, decl)], 'B': {edit: [(module, decl)]}}
    add(schema, fam['A'])               # schema with the family
    replace(schema, fam, edit)          # copy of the schema with the family in its B variant
"""
from __future__ import annotations

import copy


def raw(name, text):
    return dict(kind='raw', name=name, text=text)


def add(schema, decls, draw=None):
    from hypothesis import strategies as st
    s = copy.deepcopy(schema)
    for m, d in decls:
        s['modules'].setdefault(m, [])
        pos = draw(st.integers(0, len(s['modules'][m]))) if draw is not None else len(s['modules'][m])
        s['modules'][m].insert(pos, copy.deepcopy(d))
    return s


def replace(schema_with_a, fam, edit):
    """the same schema with the family's declarations replaced by variant `edit`"""
    s = copy.deepcopy(schema_with_a)
    names = {(m, d['name']) for m, d in fam['A']}
    for m in list(s['modules']):
        s['modules'][m] = [d for d in s['modules'][m] if (m, d['name']) not in names]
    for m, d in fam['B'][edit]:
        s['modules'].setdefault(m, []).append(copy.deepcopy(d))
    return s


def _taken(mods):
    return {d['name'] for ds in mods.values() for d in ds}


# ----------------------------------------------------------------------

def diamond(draw, m):
    """the same pointer (and index / link) declared by two bases, inherited without override"""
    from hypothesis import strategies as st
    with_index = draw(st.booleans())
    with_link = draw(st.booleans())
    third = draw(st.booleans())
    grand = draw(st.booleans())
    q = lambda n: f'{m}::{n}'   # noqa: E731

    def base(n, has_x=True, has_index=True, has_link=True, extra=''):
        body = []
        if has_x:
            body.append('property dx -> str')
        if has_x and with_index and has_index:
            body.append('index on (.dx)')
        if with_link and has_link:
            body.append(f'link dl -> {q("DT")}')
        body.append(f'property own_{n.lower()} -> int64')
        if extra:
            body.append(extra)
        return raw(n, 'abstract type {NAME} { ' + '; '.join(body) + '; }')
    dt = raw('DT', 'type {NAME} { property tn -> str; }')
    p1, p2 = base('DP1'), base('DP2')
    p3 = raw('DP3', 'abstract type {NAME} { property dz -> str; }')

    def child(bases):
        return raw('DC', 'type {NAME} extending ' + ', '.join(q(b) for b in bases) + ' { property cown -> str; }')
    bases = ['DP1', 'DP2'] + (['DP3'] if third else [])
    dd = raw('DD', f'type {{NAME}} extending {q("DC")} {{ property down -> str; }}')
    common = [(m, dt)] + ([(m, p3)] if third else []) + ([(m, dd)] if grand else [])
    A = common + [(m, p1), (m, p2), (m, child(bases))]
    B = {
        'drop-pointer-from-one-base': common + [(m, base('DP1', has_x=False)), (m, p2), (m, child(bases))],
        'drop-pointer-from-other-base': common + [(m, p1), (m, base('DP2', has_x=False)), (m, child(bases))],
        'reorder-bases': common + [(m, p1), (m, p2), (m, child(list(reversed(bases))))],
        'drop-first-base': common + [(m, p1), (m, p2), (m, child(bases[1:]))],
    }
    if with_index:
        B['drop-index-from-one-base'] = common + [(m, base('DP1', has_index=False)), (m, p2), (m, child(bases))]
    if with_link:
        B['drop-link-from-one-base'] = common + [(m, base('DP1', has_link=False)), (m, p2), (m, child(bases))]
    if third:
        B['drop-two-adjacent-bases'] = common + [(m, p1), (m, p2), (m, child(['DP3']))]
        B['drop-two-first-bases'] = common + [(m, p1), (m, p2), (m, child(bases[2:]))]
        B['rotate-bases'] = common + [(m, p1), (m, p2), (m, child(bases[1:] + bases[:1]))]
    return dict(name='diamond', A=A, B=B)


def link_overload(draw, m):
    """a child overloads a link / property of its parent; the override is changed or removed"""
    from hypothesis import strategies as st
    q = lambda n: f'{m}::{n}'   # noqa: E731
    pol = ['restrict', 'allow', 'delete source', 'deferred restrict']
    ppol = draw(st.sampled_from(pol))
    cpol = draw(st.sampled_from([p for p in pol if p != ppol]))
    spol = draw(st.sampled_from(['allow', 'delete target']))
    grand = draw(st.booleans())
    use_source = draw(st.booleans())
    lt = raw('LT', 'type {NAME} { property tn -> str; }')

    def parent(policy=ppol, default="'a'", readonly=True):
        return raw('LP', f'type {{NAME}} {{ link lk -> {q("LT")} {{ on target delete {policy}; }}; '
                         f'property lv -> str {{ default := {default}; '
                         + ('readonly := true; ' if readonly else '') + '}; }')

    def child(policy=cpol, over_link=True, over_prop=None):
        body = []
        if over_link:
            extra = f' on source delete {spol};' if use_source else ''
            body.append(f'overloaded link lk -> {q("LT")} {{ on target delete {policy};{extra} }}')
        if over_prop is not None:
            inner = '' if over_prop == '' else f'default := {over_prop}; '
            body.append(f"overloaded property lv -> str {{ {inner}annotation title := 'kept'; }}")
        body.append('property lcown -> str')
        return raw('LC', f'type {{NAME}} extending {q("LP")} {{ ' + '; '.join(body) + '; }')
    lg = raw('LG', f'type {{NAME}} extending {q("LC")} {{ property lgown -> str; }}')
    over_prop = draw(st.sampled_from([None, "'a'", "'b'"]))
    common = [(m, lt)] + ([(m, lg)] if grand else [])
    A = common + [(m, parent()), (m, child(over_prop=over_prop))]
    B = {
        'remove-link-override': common + [(m, parent()), (m, child(over_link=False, over_prop=over_prop))],
        'override-equals-parent': common + [(m, parent()), (m, child(policy=ppol, over_prop=over_prop))],
        'change-parent-policy': common + [(m, parent(policy=cpol)), (m, child(over_prop=over_prop))],
        'change-override-policy': common + [(m, parent()), (m, child(
            policy=[p for p in pol if p not in (ppol, cpol)][0], over_prop=over_prop))],
    }
    if over_prop is not None:
        B['remove-prop-override'] = common + [(m, parent()), (m, child(over_prop=None))]
        # the explicit value goes, the overload itself (an annotation) stays
        B['drop-value-keep-overload'] = common + [(m, parent()), (m, child(over_prop=''))]
        B['change-parent-default'] = common + [(m, parent(default="'z'")), (m, child(over_prop=over_prop))]
        B['parent-not-readonly'] = common + [(m, parent(readonly=False)), (m, child(over_prop=over_prop))]
    return dict(name='link-overload', A=A, B=B)


def three_levels(draw, m):
    """three inheritance levels; the top pointer / constraint is renamed or retyped"""
    from hypothesis import strategies as st
    q = lambda n: f'{m}::{n}'   # noqa: E731
    multi = draw(st.booleans())
    with_con = draw(st.booleans())
    over = draw(st.booleans())

    def top(tags='tags', boss='boss', ty='str', con='tcon'):
        body = [f"{'multi ' if multi else ''}property {tags} -> {ty}", f'link {boss} -> {q("TB")}',
                f'index on (.{tags})' if not multi else 'property tplain -> str']
        if with_con:
            body.append(f'constraint {q(con)} on (.tplain)' if multi else f'constraint {q(con)} on (.{tags})')
        return raw('TB', 'type {NAME} { ' + '; '.join(body) + '; }')

    def acon(name='tcon'):
        return raw(name, "abstract constraint {NAME} { using (exists __subject__); errmessage := 'tcon'; }")

    def mid(tags='tags'):
        body = ['property tmid -> str']
        if over:
            body.append(f"overloaded {'multi ' if multi else ''}property {tags} -> str {{ annotation title := 'o'; }}")
        return raw('TC', f'type {{NAME}} extending {q("TB")} {{ ' + '; '.join(body) + '; }')
    low = raw('TG', f'type {{NAME}} extending {q("TC")} {{ property tlow -> str; }}')
    low2 = raw('TG2', f'type {{NAME}} extending {q("TG")} {{ property tlow2 -> str; }}')
    deep = draw(st.booleans())
    common = [(m, low)] + ([(m, low2)] if deep else [])
    cons = [(m, acon())] if with_con else []
    A = common + cons + [(m, top()), (m, mid())]
    B = {
        'rename-top-pointers': common + cons + [(m, top(tags='labels', boss='manager')), (m, mid(tags='labels'))],
        'rename-top-property': common + cons + [(m, top(tags='labels')), (m, mid(tags='labels'))],
        'rename-top-link': common + cons + [(m, top(boss='manager')), (m, mid())],
    }
    if with_con:
        B['rename-abstract-constraint'] = common + [(m, acon('tcon2')), (m, top(con='tcon2')), (m, mid())]
    return dict(name='three-levels', A=A, B=B)


def nested_collection(draw, m):
    """a scalar used at two depths of one collection type; the scalar is renamed"""
    from hypothesis import strategies as st
    q = lambda n: f'{m}::{n}'   # noqa: E731
    shapes = ['tuple<{S}, array<{S}>>', 'tuple<a: {S}, b: array<tuple<{S}, str>>>',
              'array<tuple<{S}, array<{S}>>>', 'tuple<{S}, tuple<{S}, array<{S}>>>',
              'tuple<{S}, array<tuple<array<{S}>, {S}>>>']
    si = draw(st.integers(0, len(shapes) - 1))
    shape = shapes[si]
    enum = draw(st.booleans())

    def scal(n):
        return raw(n, 'scalar type {NAME} extending ' + ('enum<A, B>' if enum else 'str'))

    def holder(n):
        return raw('NH', 'type {NAME} { property nt -> ' + shape.replace('{S}', q(n))
                   + f'; property na -> array<{q(n)}>; property ns -> {q(n)}; }}')
    fn = draw(st.booleans())

    def func(n):
        return raw('nfn', f'function {{NAME}}(a: array<{q(n)}>) -> optional {shape.replace("{S}", q(n))} '
                          f'using (<{shape.replace("{S}", q(n))}>{{}})')
    A = [(m, scal('NFoo')), (m, holder('NFoo'))] + ([(m, func('NFoo'))] if fn else [])
    B = {'rename-scalar': [(m, scal('NBar')), (m, holder('NBar'))] + ([(m, func('NBar'))] if fn else [])}
    return dict(name=f'nested-collection:s{si}', A=A, B=B)


def function_on_constraint(draw, m):
    """functions / aliases / defaults whose validity (cardinality) depends on an exclusive
    constraint, property-level, object-level or inherited"""
    from hypothesis import strategies as st
    q = lambda n: f'{m}::{n}'   # noqa: E731
    where = draw(st.sampled_from(['property', 'object', 'inherited-property', 'inherited-object']))
    if where == 'property':
        decls = [raw('FT', 'type {NAME} { required property fname -> str { constraint exclusive; }; }')]
    elif where == 'object':
        decls = [raw('FT', 'type {NAME} { required property fname -> str; constraint exclusive on (.fname); }')]
    elif where == 'inherited-property':
        decls = [raw('FNamed', 'abstract type {NAME} { required property fname -> str { constraint exclusive; }; }'),
                 raw('FT', f'type {{NAME}} extending {q("FNamed")}')]
    else:
        decls = [raw('FNamed', 'abstract type {NAME} { required property fname -> str; constraint exclusive on (.fname); }'),
                 raw('FT', f'type {{NAME}} extending {q("FNamed")}')]
    users = [raw('f_get', f'function {{NAME}}(n: str) -> optional {q("FT")} using (select {q("FT")} filter .fname = n)')]
    k = draw(st.integers(0, 3))
    if k == 1:
        users.append(raw('FU', f"type {{NAME}} {{ link pick := {q('f_get')}('x'); property fu -> str; }}"))
    elif k == 2:
        users.append(raw('FAl', f"alias {{NAME}} := (select {q('FT')} {{ twin := {q('f_get')}(.fname) }})"))
    elif k == 3:
        users.append(raw('fg', f"single global {{NAME}} := (select {q('FT')} filter .fname = 'g')"))
    A = [(m, d) for d in decls + users]
    return dict(name='function-on-constraint:' + where, A=A, B={})


def tracer_scopes(draw, m):
    """expressions in which the SDL tracer has to keep scopes apart: an abbreviated path after a
    WITH-less sub-query, a FOR alias spelled like a type, a result alias used in a filter"""
    from hypothesis import strategies as st
    q = lambda n: f'{m}::{n}'   # noqa: E731
    sub = draw(st.sampled_from([
        f'count((select {q("Item")} filter .price > 10)) + .base',
        f'count((update {q("Item")} filter .price > 10 set {{ price := 1 }})) + .base' if False else
        f'count((select {q("Item")} filter .price > .price)) + .base',
        f'.base + count((select {q("Item")} filter .price > 10))',
        f'(select count({q("Item")} filter .price > 10)) + .base + .base2']))
    cart = [f'property total := ({sub})', 'property base -> int64', 'property base2 -> int64']
    if draw(st.booleans()):
        cart = [cart[0], cart[2], cart[1]]
    for_kind = draw(st.integers(0, 2))
    def prop(name, target=None, expr=None):
        return dict(kind='property', name=name, target=target, card=None, required=False, expr=expr,
                    default=None, constraints=[], annotations=[], linkprops=[])
    # a structured declaration, so that checks which permute type bodies permute this one
    cart_decl = dict(kind='type', name='Cart', abstract=False, bases=[], members=[
        prop('total', expr=sub) if c.startswith('property total') else
        prop(c.split()[1], target='int64') for c in cart])
    decls = [raw('Item', 'type {NAME} { property price -> int64; }'),
             cart_decl,
             raw('n_items', f'function {{NAME}}() -> int64 using (count({q("Item")}))')]
    if for_kind == 0:
        decls.append(raw('Loop', 'type {NAME} { property lz := (select sum((for Item in {1, 2} union (Item + 1)))); }'))
    elif for_kind == 1:
        decls.append(raw('l_sum', 'function {NAME}() -> int64 using (sum((for Item in {1, 2} union (Item))))'))
    A = [(m, d) for d in decls]
    return dict(name='tracer-scopes', A=A, B={})


def cross_module_backlink(draw, m):
    """a computed backlink through a link that the intersected type only inherits from an
    abstract type in another module (which sorts after the referring module)"""
    from hypothesis import strategies as st
    lib = draw(st.sampled_from(['zlib', 'other', 'lib']))
    inter = draw(st.booleans())
    decls = [
        (lib, raw('Authored', f'abstract type {{NAME}} {{ link author -> {m}::BUser; property ttl -> str; }}')),
        (m, raw('BUser', f'type {{NAME}} {{ multi link posts := .<author[is {m}::BPost]; property bn -> str; '
                         + (f'multi link titled := (select .<author[is {lib}::Authored] filter exists .ttl); ' if inter else '')
                         + '}')),
        (m, raw('BPost', f'type {{NAME}} extending {lib}::Authored {{ property body -> str; }}')),
    ]
    # the same schema as an explicit DDL script (a creation order that does not go through the
    # SDL planner), for checks that must not build their input with the code under test
    ddl = (f'create module default if not exists; create module {m} if not exists; create module {lib} if not exists; '
           f'create abstract type {lib}::Authored; '
           f'create type {m}::BUser {{ create property bn -> str; }}; '
           f'alter type {lib}::Authored {{ create link author -> {m}::BUser; create property ttl -> str; }}; '
           f'create type {m}::BPost extending {lib}::Authored {{ create property body -> str; }}; '
           f'alter type {m}::BUser {{ create multi link posts := (.<author[is {m}::BPost]); '
           + (f'create multi link titled := (select .<author[is {lib}::Authored] filter exists .ttl); ' if inter else '')
           + '};')
    return dict(name='cross-module-backlink', A=decls, B={}, ddl=ddl)


def overloaded_functions(draw, m):
    """overloads of one function that call each other: not a cycle (each overload is its own
    object and a valid creation order exists)"""
    from hypothesis import strategies as st
    q = lambda n: f'{m}::{n}'   # noqa: E731
    k = draw(st.integers(0, 2))
    decls = [raw('ovf', 'function {NAME}(a: int64) -> int64 using (a + 1)')]
    if k == 0:
        decls.append(raw('ovf', f'function {{NAME}}(a: str) -> int64 using ({q("ovf")}(len(a)))'))
    elif k == 1:
        decls.append(raw('ovf', f'function {{NAME}}(a: str, b: str) -> int64 using ({q("ovf")}(len(a ++ b)))'))
    else:
        decls.append(raw('ovf', f'function {{NAME}}(a: array<int64>) -> int64 using (sum({q("ovf")}(array_unpack(a))))'))
    return dict(name='overloaded-functions', A=[(m, d) for d in decls], B={})


EDITABLE = [diamond, link_overload, three_levels, nested_collection]
STATIC = [function_on_constraint, tracer_scopes, cross_module_backlink, overloaded_functions]


def draw_family(draw, mods, editable_only=False):
    from hypothesis import strategies as st
    pool = EDITABLE if editable_only else EDITABLE + STATIC
    f = draw(st.sampled_from(pool))
    m = draw(st.sampled_from(sorted(mods)))
    return f(draw, m)
