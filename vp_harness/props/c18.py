"""C18 — quoted literals and identifiers cannot break out of their quotes.

Generated: (i) exhaustive: all strings of length <= 3 (quick) / <= 4 (thorough)
over a 26-symbol adversarial alphabet, all byte strings of length <= 3 over a
17-symbol byte alphabet; (ii) fragments: every keyword of the EdgeQL and
PostgreSQL keyword tables in three casings, delimiter-like fragments, and
pairwise concatenations; (iii) Hypothesis text()/binary().

Oracle: EdgeQL side = the repository's real lexer (Rust, via FFI): the produced
form must be exactly one token of the expected kind carrying the original
value, alone and embedded in `select <form> ;`.  SQL side = the harness'
reference lexer for PostgreSQL's lexical rules (oracles/pglex.py).
"""
from __future__ import annotations

import itertools

from vp_harness import env  # noqa: F401  (substrate)
from vp_harness import core
from vp_harness.oracles import pglex

ID = 'C18'
LEVEL = 'exploration'
RULE = (
    'each case = one input string (or byte string) pushed through every quoting '
    'form whose domain contains it (EdgeQL: quote_literal, dollar_quote_literal, '
    'quote_ident x flags, param_to_str, codegen Constant/BytesConstant; SQL: '
    'quote_literal, quote_ident, quote_col, qname, quote_type, quote_bytea_literal, '
    'quote_e_literal, pg codegen String/Bytea constants, dbops encode_value). '
    'Non-trivial = the string contains a character that must be escaped or forces '
    'quoting in at least one form (quote, backslash, dollar, backtick, control, '
    'bidi, upper case, keyword, leading digit, non-identifier char); distinct by '
    'the string itself. The enumerated part is exhaustive for its alphabet/length.')
ASSUMPTIONS = [
    'PostgreSQL runs with standard_conforming_strings=on and a UTF-8 server encoding',
    'keyword classes for unquoted SQL words come from the manual (Appendix C) as '
    'transcribed in oracles/pglex.py, restricted to words present in the '
    "repository's own table (so PostgreSQL version skew is not reported)",
    'quote_e_literal has no callers; it is checked only on backslash-free input',
]
MIN_EVALS = {'quick': 15000, 'thorough': 300000}

ALPHABET = ["'", '"', '\\', '$', '`', '\n', '\r', '\t', ' ', 'a', 'A', '0', '_',
            '\u00e9', ';', '-', '/', '*', ':', '@', '(', ')', '\x7f', '\x85',
            '\u202e', '\u2066']
# NUL is outside every textual form's domain; it is included in the random part
BYTE_ALPHABET = [0x00, 0x27, 0x22, 0x5c, 0x0a, 0x0d, 0x09, 0x61, 0x78, 0x30,
                 0x7e, 0x7f, 0x80, 0xff, 0xc3, 0xa9, 0x24]
BIDI = set('\u202a\u202b\u202c\u202d\u202e\u2066\u2067\u2068\u2069')

_S = {}


def _setup():
    if _S:
        return _S
    import edb._edgeql_parser as P
    from edb.edgeql import quote as qlquote, codegen as qlcodegen, ast as qlast
    from edb.pgsql import common as pgcommon, codegen as pgcodegen, ast as pgast
    from edb.pgsql import keywords as pgkw
    from edb.pgsql.dbops import base as dbase
    _S.update(P=P, qlquote=qlquote, qlcodegen=qlcodegen, qlast=qlast,
              pgcommon=pgcommon, pgcodegen=pgcodegen, pgast=pgast,
              dbase=dbase)
    _S['ql_reserved'] = frozenset(P.current_reserved_keywords) | frozenset(
        P.future_reserved_keywords)
    _S['ql_all_kw'] = (_S['ql_reserved'] | frozenset(P.unreserved_keywords)
                       | frozenset(P.partial_reserved_keywords))
    repo_pg = set(pgkw.pg_keywords)
    _S['pg_reserved'] = (pglex.RESERVED | pglex.TYPE_FUNC_NAME) & repo_pg
    _S['pg_colname'] = pglex.COL_NAME & repo_pg
    _S['pg_all_kw'] = sorted(repo_pg)
    return _S


def preload():
    _setup()


# -- EdgeQL side ---------------------------------------------------------

def _ql_tokens(text):
    r = _S['P'].tokenize(text)
    if r.errors:
        return None, r.errors[0][0]
    out = []
    for t in r.out:
        j = t._j
        kind = j['kind']
        if isinstance(kind, dict):
            kind = 'Keyword'
        v = j.get('value')
        if isinstance(v, dict):
            (k, x), = v.items()
            v = bytes(x) if k == 'Bytes' else x
        out.append((kind, j['text'], v))
    return out, None


def _ql_single(text, kinds, value, what):
    """text must lex as exactly one token of one of `kinds` with `value`, both
    alone and embedded."""
    toks, err = _ql_tokens(text)
    if toks is None:
        return f'{what}: produced {text!r} which the lexer rejects: {err}'
    if len(toks) != 2 or toks[1][0] != 'EOI':
        return (f'{what}: produced {text!r} which lexes as {len(toks) - 1} tokens '
                f'{[t[:2] for t in toks[:-1]]!r}')
    k, _, v = toks[0]
    if k not in kinds:
        return f'{what}: produced {text!r} which lexes as {k}, expected {kinds}'
    if v != value:
        return f'{what}: produced {text!r} which reads back as {v!r} != {value!r}'
    emb = 'select ' + text + ' ;'
    toks2, err = _ql_tokens(emb)
    if toks2 is None:
        return f'{what}: embedded {emb!r} rejected: {err}'
    if [t[0] for t in toks2] != ['Keyword', k, 'Semicolon', 'EOI'] or toks2[1][2] != value:
        return f'{what}: embedded {emb!r} lexes as {[t[:2] for t in toks2]!r}'
    return None


def _bt(s):
    return '`' + s.replace('`', '``') + '`'


def check_text(s: str):
    """Yield (form, detail) for every violated form."""
    S = _setup()
    qlq, cg, qlast = S['qlquote'], S['qlcodegen'], S['qlast']
    nul = '\0' in s
    bidi = any(c in BIDI for c in s)
    surrogate = any(0xd800 <= ord(c) <= 0xdfff for c in s)
    if surrogate:
        return
    # ---------------- EdgeQL string literal
    if not nul:
        r = _ql_single(qlq.quote_literal(s), ('Str',), s, 'edgeql quote_literal')
        if r:
            yield 'ql.quote_literal', r
        try:
            txt = cg.generate_source(qlast.Constant.string(s))
        except Exception as e:
            txt = None
            yield 'ql.codegen.Constant', f'codegen raised {type(e).__name__}: {e}'
        if txt is not None:
            r = _ql_single(txt, ('Str',), s, 'edgeql codegen string constant')
            if r:
                yield 'ql.codegen.Constant', r
        if not bidi:
            r = _ql_single(qlq.dollar_quote_literal(s), ('Str',), s,
                           'edgeql dollar_quote_literal')
            if r:
                yield 'ql.dollar_quote_literal', r
    # ---------------- EdgeQL identifiers: domain = what a back-quoted name
    # can express, decided by the lexer itself on our own forced quoting
    toks, _ = _ql_tokens(_bt(s)) if s else (None, None)
    if toks and len(toks) == 2 and toks[0][0] == 'Ident' and toks[0][2] == s:
        low = s.lower()
        numeric = s.isascii() and s.isdigit()
        for force in (False, True):
            for allow_reserved in (False, True):
                for allow_num in (False, True):
                    out = qlq.quote_ident(s, force=force,
                                          allow_reserved=allow_reserved,
                                          allow_num=allow_num)
                    what = (f'edgeql quote_ident(force={force}, allow_reserved='
                            f'{allow_reserved}, allow_num={allow_num})')
                    if allow_num and numeric and not out.startswith('`'):
                        # a bare integer is only ever produced for a path
                        # step (`x.0`): judge it in that context, on the
                        # domain the lexer can express there
                        dom, _ = _ql_tokens('x.' + s)
                        if dom and [t[0] for t in dom] == [
                                'Ident', 'Dot', 'IntConst', 'EOI']:
                            got, err = _ql_tokens('x.' + out)
                            if got != dom:
                                yield 'ql.quote_ident', (
                                    f'{what}: path step x.{out} lexes as '
                                    f'{got!r} / {err!r}')
                                break
                        continue
                    kinds = ['Ident']
                    if not out.startswith('`'):
                        if low in S['ql_all_kw'] and (
                                allow_reserved or low not in S['ql_reserved']):
                            kinds.append('Keyword')
                    r = _ql_single(out, tuple(kinds), s, what)
                    if r:
                        yield 'ql.quote_ident', r
                        break
    ptoks, _ = _ql_tokens('$' + _bt(s)) if s else (None, None)
    if ptoks and len(ptoks) == 2 and ptoks[0][0] == 'Parameter' and ptoks[0][2] == s:
        r = _ql_single(cg.param_to_str(s), ('Parameter',), s, 'edgeql param_to_str')
        if r:
            yield 'ql.param_to_str', r
    # ---------------- SQL side
    if nul:
        return
    pgc, pgcg, pgast, dbase = S['pgcommon'], S['pgcodegen'], S['pgast'], S['dbase']

    def pg_one(text, kind, value, what):
        try:
            toks = pglex.tokenize(text)
        except pglex.LexError as e:
            return f'{what}: produced {text!r}: PostgreSQL lexer error: {e}'
        if len(toks) != 1 or toks[0] != (kind, value):
            return f'{what}: produced {text!r} which PostgreSQL reads as {toks!r}, expected one {kind} {value!r}'
        try:
            toks = pglex.tokenize('SELECT ' + text + ' , 1')
        except pglex.LexError as e:
            return f'{what}: embedded: PostgreSQL lexer error: {e}'
        if toks != [('word', 'select'), (kind, value), ('op', ','), ('number', '1')]:
            return f'{what}: embedded form reads as {toks!r}'
        return None

    for what, text in (
            ('pgsql quote_literal', pgc.quote_literal(s)),
            ('pgsql codegen StringConstant',
             pgcg.generate_source(pgast.StringConstant(val=s))),
            ('dbops encode_value', dbase.encode_value(s))):
        r = pg_one(text, 'string', s, what)
        if r:
            yield what.replace(' ', '.'), r
    if '\\' not in s:
        r = pg_one(pgc.quote_e_literal(s), 'string', s, 'pgsql quote_e_literal')
        if r:
            yield 'pgsql.quote_e_literal', r
    nbytes = len(s.encode('utf-8'))
    if 1 <= nbytes <= 63:
        for column in (False, True):
            out = pgc.quote_ident(s, column=column)
            what = f'pgsql quote_ident(column={column})'
            if out.startswith('"'):
                r = pg_one(out, 'qident', s, what)
            else:
                r = pg_one(out, 'word', s, what)
                if not r:
                    low = pglex.fold(out)
                    if low in S['pg_reserved'] or (column and low in S['pg_colname']):
                        r = (f'{what}: produced the bare word {out!r}, which is a '
                             f'reserved PostgreSQL keyword, not an identifier')
            if r:
                yield 'pgsql.quote_ident', r
        out = pgc.qname('s', s, s)
        try:
            toks = pglex.tokenize(out)
            vals = [v for k, v in toks if k in ('qident', 'word')]
            shape = [k if k == 'op' else 'id' for k, v in toks]
            if vals != ['s', s, s] or shape != ['id', 'op', 'id', 'op', 'id'] or \
                    [v for k, v in toks if k == 'op'] != ['.', '.']:
                yield 'pgsql.qname', f'qname("s", {s!r}, {s!r}) = {out!r} reads as {toks!r}'
        except pglex.LexError as e:
            yield 'pgsql.qname', f'qname produced {out!r}: {e}'
        if not any(x in s for x in ('(', '[]', '%ROWTYPE')):
            out = pgc.quote_type(('sch', s))
            try:
                toks = pglex.tokenize(out)
                if [v for k, v in toks] != ['sch', '.', s]:
                    yield 'pgsql.quote_type', f'quote_type(("sch", {s!r})) = {out!r} reads as {toks!r}'
            except pglex.LexError as e:
                yield 'pgsql.quote_type', f'quote_type produced {out!r}: {e}'


def check_bytes(b: bytes):
    S = _setup()
    cg, qlast = S['qlcodegen'], S['qlast']
    try:
        txt = cg.generate_source(qlast.BytesConstant(value=b))
    except Exception as e:
        yield 'ql.codegen.BytesConstant', f'codegen raised {type(e).__name__}: {e} for {b!r}'
        txt = None
    if txt is not None:
        r = _ql_single(txt, ('BinStr',), b, 'edgeql codegen bytes constant')
        if r:
            yield 'ql.codegen.BytesConstant', r
    pgc, pgcg, pgast = S['pgcommon'], S['pgcodegen'], S['pgast']
    for what, text in (
            ('pgsql.quote_bytea_literal', pgc.quote_bytea_literal(b)),
            ('pgsql.codegen.ByteaConstant',
             pgcg.generate_source(pgast.ByteaConstant(val=b)))):
        try:
            toks = pglex.tokenize(text)
        except pglex.LexError as e:
            yield what, f'{text!r}: {e}'
            continue
        ok = (len(toks) == 4 and toks[0][0] == 'string'
              and toks[1:] == [('op', ':'), ('op', ':'), ('word', 'bytea')])
        if ok:
            lit = toks[0][1]
            if lit == '':
                val = b''
            elif lit.startswith('\\x'):
                try:
                    val = bytes.fromhex(lit[2:])
                except ValueError:
                    val = None
            else:
                val = None
            ok = val == b
        if not ok:
            yield what, f'{text!r} does not read back as bytea {b!r}: {toks!r}'


def nontrivial_text(s):
    S = _setup()
    if not s:
        return False
    low = s.lower()
    return (any(c in "'\"\\$`\n\r\t\b\f \x7f" or c in BIDI or c.isupper()
                or not (c.isalnum() or c == '_') or ord(c) < 32
                or 0x7f <= ord(c) <= 0x9f for c in s)
            or s[0].isdigit() or low in S['ql_all_kw'] or low in S['pg_all_kw'])


def classes_text(s):
    out = []
    for name, pred in (
            ('quote', lambda c: c in "'\""), ('backslash', lambda c: c == '\\'),
            ('dollar', lambda c: c == '$'), ('backtick', lambda c: c == '`'),
            ('control', lambda c: ord(c) < 32 or 0x7f <= ord(c) <= 0x9f),
            ('bidi', lambda c: c in BIDI), ('upper', lambda c: c.isupper()),
            ('non-ascii', lambda c: ord(c) > 127)):
        if any(pred(c) for c in s):
            out.append(name)
    S = _setup()
    if s.lower() in S['ql_all_kw']:
        out.append('edgeql-keyword')
    if s.lower() in S['pg_all_kw']:
        out.append('pg-keyword')
    if s[:1].isdigit():
        out.append('leading-digit')
    return out


def _run_text(rec, s, cls=True):
    vs = list(check_text(s))
    rec.case({'text': s}, nontrivial=nontrivial_text(s),
             classes=classes_text(s) if cls else ())
    for form, detail in vs:
        rec.violation(_sig(form, detail, s), {'text': s}, detail)


def _sig(form, detail, s=None):
    # root cause bucket: the form + coarse failure kind (+ the classes of
    # suspicious characters in the input, so that different root causes in
    # one form do not hide behind each other)
    if 'rejects' in detail or 'lexer error' in detail or 'rejected' in detail:
        kind = 'rejected'
    elif 'tokens' in detail or 'reads as' in detail or 'lexes as' in detail:
        kind = 'token-structure'
    elif 'reads back as' in detail:
        kind = 'value-changed'
    elif 'keyword' in detail:
        kind = 'bare-keyword'
    else:
        kind = 'other'
    sig = f'{form}:{kind}'
    if isinstance(s, str):
        sig += ':' + '+'.join(_charclasses(s))
    return sig


def _charclasses(s):
    out = set()
    for c in s:
        if c in "'\"":
            out.add('quote')
        elif c == '\\':
            out.add('backslash')
        elif c == '$':
            out.add('dollar')
        elif c == '`':
            out.add('backtick')
        elif c in BIDI:
            out.add('bidi')
        elif ord(c) < 32 or 0x7f <= ord(c) <= 0x9f:
            out.add('control')
        elif not c.isascii() and c.isnumeric():
            out.add('nonascii-numeric')
        elif c.isspace():
            out.add('space')
        elif c.isupper():
            out.add('upper')
        elif not c.isalnum() and c != '_':
            out.add('punct')
    return sorted(out)


def _run_bytes(rec, b):
    vs = list(check_bytes(b))
    rec.case({'bytes': list(b)},
             nontrivial=any(c in (0x27, 0x5c, 0x0a) or c < 32 or c >= 0x7e for c in b),
             classes=['bytes'])
    for form, detail in vs:
        rec.violation(_sig(form, detail), {'bytes': list(b)}, detail)


def _fragments():
    S = _setup()
    frags = ['$$', '$a$', "\\'", '``', '::', '__type__', '__std__', '__x__',
             'x' * 64, '\u00e9' * 32, '$', "'", '"', 'r', 'b', 'E', "''", '""',
             '\\', '\\\\', '$$$', '$a', 'a$', '1a', 'a1', '_', '0', '00', '007',
             '-1', '1.0', '1e5', '9' * 30, '@a', 'a b', 'a.b', 'a::b', ' ', '',
             '\u202e', '\u2066x', '\x00', 'a\x00b', '\ud7ff', '\U0001f600']
    kws = sorted(S['ql_all_kw']) + S['pg_all_kw']
    for k in kws:
        frags.extend([k, k.upper(), k.capitalize()])
    return frags


def shard(rec, idx, nshards, seed, tier):
    _setup()
    maxlen = 3 if tier == 'quick' else 4
    # (i) exhaustive text
    n = 0
    total = 0
    for L in range(0, maxlen + 1):
        for tup in itertools.product(ALPHABET, repeat=L):
            if n % nshards == idx:
                s = ''.join(tup)
                vs = list(check_text(s))
                rec.evaluations += 1
                total += 1
                if nontrivial_text(s):
                    rec.nontrivial_enum += 1
                    if len(rec.samples) < 4 and n % 4099 == idx:
                        rec.samples.append({'text': s})
                for form, detail in vs:
                    rec.violation(_sig(form, detail, s), {'text': s}, detail)
            n += 1
    rec.extra.setdefault('exhaustive_spaces', {})[
        f'text over {len(ALPHABET)} symbols, len<={maxlen}'] = total
    # exhaustive bytes
    n = 0
    total = 0
    for L in range(0, 4):
        for tup in itertools.product(BYTE_ALPHABET, repeat=L):
            if n % nshards == idx:
                b = bytes(tup)
                vs = list(check_bytes(b))
                rec.evaluations += 1
                total += 1
                if any(c in (0x27, 0x5c, 0x0a) or c < 32 or c >= 0x7e for c in b):
                    rec.nontrivial_enum += 1
                for form, detail in vs:
                    rec.violation(_sig(form, detail), {'bytes': list(b)}, detail)
            n += 1
    rec.extra['exhaustive_spaces'][
        f'bytes over {len(BYTE_ALPHABET)} symbols, len<=3'] = total
    # (ii) fragments and pairs
    frags = _fragments()
    for i, f in enumerate(frags):
        if i % nshards == idx:
            _run_text(rec, f)
    glue = ['$$', "'", '"', '\\', '`', '$', ' ', '\n', '$a$', 'select', '::', '\u202e']
    pairs = [a + b for a in glue for b in glue] + \
            [a + b + c for a in glue[:7] for b in ('x', 'A') for c in glue[:7]]
    for i, f in enumerate(pairs):
        if i % nshards == idx:
            _run_text(rec, f)
    # (iii) random
    from hypothesis import strategies as st
    ncases = 3000 if tier == 'quick' else 200000
    adversarial = st.lists(
        st.one_of(st.sampled_from(ALPHABET + ['$$', '$a$', '\0', '\b', '\f']),
                  st.sampled_from(frags[:60]),
                  st.characters()), max_size=24).map(''.join)
    strat = st.one_of(
        st.text(max_size=200).map(lambda s: ('t', s)),
        adversarial.map(lambda s: ('t', s)),
        st.binary(max_size=200).map(lambda b: ('b', b)))

    def body(case):
        k, v = case
        if k == 't':
            _run_text(rec, v)
        else:
            _run_bytes(rec, v)

    core.run_given(strat, body, seed=seed * 1000 + idx, max_examples=ncases)


def replay(case):
    _setup()
    if 'text' in case:
        vs = list(check_text(case['text']))
    else:
        vs = list(check_bytes(bytes(case['bytes'])))
    want = case.get('form')
    if want:
        vs = [v for v in vs if v[0] == want.split(':')[0]]
    if vs:
        return '; '.join(f'{f}: {d}' for f, d in vs[:3])
    return None


def shrink(case, sig):
    def fails(c):
        if 'text' in c:
            vs = check_text(c['text'])
        else:
            vs = check_bytes(bytes(c['bytes']))
        return any(_sig(f, d).split(':')[:2] == sig.split(':')[:2]
                   for f, d in vs)

    def simplify(c):
        key = 'text' if 'text' in c else 'bytes'
        seq = list(c[key])
        for sub in core.list_simplify(seq):
            yield {key: ''.join(sub) if key == 'text' else sub}
    out = core.greedy_shrink(case, fails, simplify, budget_s=20)
    out = dict(out)
    out['form'] = sig
    return out


def final_sig(case, detail):
    form = case.get('form', '').split(':')[0]
    if 'text' in case:
        vs = [v for v in check_text(case['text']) if v[0] == form]
        return _sig(vs[0][0], vs[0][1], case['text']) if vs else None
    return None


def finish(cov, tier):
    cov['exhaustive'] = True
    cov['exhaustive_note'] = (
        'the enumerated sub-spaces under exhaustive_spaces were covered completely; '
        'fragments and Hypothesis text/binary are sampled')
