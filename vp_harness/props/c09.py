"""C09 — compiler session state follows transaction and savepoint semantics.

Generated: histories (8-40 steps) of START TRANSACTION / COMMIT / ROLLBACK /
DECLARE / RELEASE / ROLLBACK TO SAVEPOINT (3 names, so repeats), create / drop
type (4 names), SET MODULE / SET ALIAS / RESET ALIAS / RESET MODULE / RESET
ALIAS *, CONFIGURE SESSION SET / RESET, plain queries, multi-statement scripts
inside a transaction block; faults: statements the compiler rejects (unknown
names, duplicates, syntax errors, unknown savepoints, tx control in the wrong
place) and statements that compile and are then failed by the "backend"
(DDL, queries, COMMIT).  For each step a compiler worker (0/1) is drawn: the
worker that produced the last state reuses its live object (REUSE_LAST_STATE
path of compiler_pool/worker.py), any other worker unpickles the state the
server holds.

Driver: a Python transcription of what the server does with the unit fields
(dbview.pyx start/_apply_in_tx/on_success/on_error/declare_savepoint/
rollback_tx_to_savepoint/abort_tx/_check_in_tx_error, execute.pyx execute and
execute_script, binary.pyx _execute_rollback and the tx_error() on every
exception), calling the real Compiler.compile / compile_in_tx with the real
CompilerConnectionState round-tripped through pickle as the pool does.

Oracle: a PostgreSQL-style reference model (committed frame + transaction with
a stack of named savepoint snapshots and an error flag).  After every step:
accept/reject must agree with the model, and the observable state is probed on
a *copy* of the state with the statement the next client command would be
compiled with: `select Tk` compiles iff Tk exists in the model, module/alias
probes resolve iff the model maps them so, a statement that needs
allow_user_specified_id compiles iff the model's session setting says so, and
the session config / aliases held by the state equal the model's.
"""
from __future__ import annotations

import pickle

from vp_harness import core, env

ID = 'C09'
LEVEL = 'exploration'
RULE = (
    'case = one history (list of client commands with drawn worker and backend-fault flags). '
    'Non-trivial = the history contains a ROLLBACK TO SAVEPOINT after the same name was declared '
    'twice, or a RELEASE after a ROLLBACK TO, or a rejected/failed statement inside a transaction '
    'followed by a recovery (ROLLBACK or ROLLBACK TO) and further statements; distinct by the '
    'sequence of (statement, fault, worker).')
ASSUMPTIONS = [
    'the Cython server side (dbview.pyx, execute.pyx, binary.pyx) is transcribed (~150 lines), not executed; '
    'the query cache of dbview is not modelled (transaction control is never cached)',
    'the backend is the reference model: a statement fails in the backend only where the generator says so',
    'scripts are generated only inside explicit transaction blocks and contain no transaction control',
    'edb.schema.utils.find_item_suggestions (error hints) is stubbed out in the harness process for speed',
]
MIN_EVALS = {'quick': 200, 'thorough': 5000}

TYPES = ['T0', 'T1', 'T2', 'T3']
SPS = ['s0', 's1', 's2']
ALIASES = ['a0', 'a1']
MODS = ['std', 'std::math', 'std::cal', 'default']
MOD_PROBE = {   # text with {p} = 'alias::' or ''
    'std': 'select <{p}int64>1',
    'std::math': 'select {p}abs(1)',
    'std::cal': "select <{p}local_date>'2020-01-01'",
    'default': 'select {p}Base',
}
CFG_PROBE = "insert default::Base {{ id := <uuid>'00000000-0000-0000-0000-00000000000{n}' }}"

_S: dict = {}


def preload():
    if _S:
        return _S
    tb = env.load_std()
    import immutables
    from edb import errors
    from edb.schema import schema as s_schema
    from edb.server import config
    from edb.server.compiler import compiler as cmod
    compiler = env.new_compiler()
    # 'did you mean ...' hints cost 50 ms per failed lookup and are no part of any outcome
    from edb.schema import utils as s_utils
    s_utils.find_item_suggestions = lambda *a, **k: []
    E = immutables.Map()
    base_user = s_schema.EMPTY_SCHEMA
    base_refl = E
    for text in ('create module default', 'create type default::Base'):
        units, _ = compiler.compile(
            user_schema=base_user, global_schema=s_schema.EMPTY_SCHEMA,
            reflection_cache=E, database_config=E, system_config=E,
            request=env.Req(text))
        base_user = pickle.loads(units[0].user_schema)
        if units[0].cached_reflection is not None:
            base_refl = pickle.loads(units[0].cached_reflection)
    _S.update(tb=tb, compiler=compiler, errors=errors, s_schema=s_schema,
              immutables=immutables, config=config, cmod=cmod,
              base_user=base_user, base_refl=base_refl, E=immutables.Map(),
              default_aliases=cmod.DEFAULT_MODULE_ALIASES_MAP)
    return _S


# ----------------------------------------------------------------------
# reference model (PostgreSQL-style)

class Frame:
    def __init__(self, types=(), aliases=None, cfg=None):
        self.types = set(types)
        self.aliases = dict(aliases or {None: 'default'})
        self.cfg = dict(cfg or {})

    def copy(self):
        return Frame(self.types, self.aliases, self.cfg)

    def key(self):
        return (sorted(self.types), sorted(self.aliases.items(), key=repr),
                sorted(self.cfg.items()))


class Model:
    def __init__(self):
        self.committed = Frame()
        self.tx = None   # dict(cur=Frame, sps=[(name, Frame)], error=bool)

    def cur(self):
        return self.tx['cur'] if self.tx else self.committed

    def in_error(self):
        return bool(self.tx and self.tx['error'])

    def _apply_simple(self, frame, op):
        """apply a non-tx-control op to a frame; -> False if it must be rejected"""
        k = op[0]
        if k == 'create':
            if op[1] in frame.types:
                return False
            frame.types.add(op[1])
        elif k == 'drop':
            if op[1] not in frame.types:
                return False
            frame.types.discard(op[1])
        elif k == 'select':
            return op[1] in frame.types
        elif k == 'select1':
            return True
        elif k == 'bad':
            return False
        elif k == 'setmod':
            frame.aliases[None] = op[1]
        elif k == 'setalias':
            frame.aliases[op[1]] = op[2]
        elif k == 'resetalias':
            # the compiler raises KeyError-free? immutables delete of a missing key raises
            if op[1] not in frame.aliases:
                return None
            del frame.aliases[op[1]]
        elif k == 'resetmod':
            frame.aliases[None] = 'default'
        elif k == 'resetall':
            frame.aliases = {None: 'default'}
        elif k == 'cfgset':
            frame.cfg['allow_user_specified_id'] = op[1]
        elif k == 'cfgreset':
            frame.cfg.pop('allow_user_specified_id', None)
        else:
            raise core.HarnessError(f'unknown op {op}')
        return True

    def step(self, op, fault):
        """-> 'ok' | 'reject' | 'refused' (aborted tx) | 'backend-fail' | 'unspecified'"""
        k = op[0]
        if self.in_error() and k not in ('rollback', 'rollbackto'):
            return 'refused'
        if k == 'start':
            if self.tx:
                self.tx['error'] = True
                return 'reject'
            self.tx = dict(cur=self.committed.copy(), sps=[], error=False)
            return 'ok'
        if k == 'commit':
            if not self.tx:
                return 'reject'
            if fault:
                self.tx = None
                return 'backend-fail'
            self.committed = self.tx['cur']
            self.tx = None
            return 'ok'
        if k == 'rollback':
            self.tx = None
            return 'ok'
        if k == 'declare':
            if not self.tx:
                return 'reject'
            self.tx['sps'].append((op[1], self.tx['cur'].copy()))
            return 'ok'
        if k == 'release':
            if not self.tx:
                return 'reject'
            idx = [i for i, (n, _) in enumerate(self.tx['sps']) if n == op[1]]
            if not idx:
                self.tx['error'] = True
                return 'reject'
            del self.tx['sps'][idx[-1]:]
            return 'ok'
        if k == 'rollbackto':
            if not self.tx:
                return 'reject'
            idx = [i for i, (n, _) in enumerate(self.tx['sps']) if n == op[1]]
            if not idx:
                self.tx['error'] = True
                return 'reject'
            del self.tx['sps'][idx[-1] + 1:]
            self.tx['cur'] = self.tx['sps'][-1][1].copy()
            self.tx['error'] = False
            return 'ok'
        if k == 'script':
            assert self.tx
            f = self.tx['cur'].copy()
            for sub in op[1]:
                r = self._apply_simple(f, sub)
                if r is None:
                    return 'unspecified'
                if not r:
                    self.tx['error'] = True
                    return 'reject'
            if fault:
                self.tx['error'] = True
                return 'backend-fail'
            self.tx['cur'] = f
            return 'ok'
        # simple statement
        f = self.cur().copy()
        r = self._apply_simple(f, op)
        if r is None:
            return 'unspecified'
        if not r:
            if self.tx:
                self.tx['error'] = True
            return 'reject'
        if fault and k in ('create', 'drop', 'select', 'select1'):
            if self.tx:
                self.tx['error'] = True
            return 'backend-fail'
        if self.tx:
            self.tx['cur'] = f
        else:
            self.committed = f
        return 'ok'


def op_text(op):
    k = op[0]
    if k == 'start':
        return 'start transaction'
    if k == 'commit':
        return 'commit'
    if k == 'rollback':
        return 'rollback'
    if k == 'declare':
        return f'declare savepoint {op[1]}'
    if k == 'release':
        return f'release savepoint {op[1]}'
    if k == 'rollbackto':
        return f'rollback to savepoint {op[1]}'
    if k == 'create':
        return f'create type default::{op[1]}'
    if k == 'drop':
        return f'drop type default::{op[1]}'
    if k == 'select':
        return f'select default::{op[1]}'
    if k == 'select1':
        return 'select 1 + 1'
    if k == 'bad':
        return ['select default::NoSuchThing', 'select 1 +', 'select <nosuch::t>1'][op[1] % 3]
    if k == 'setmod':
        return f'set module {op[1]}'
    if k == 'setalias':
        return f'set alias {op[1]} as module {op[2]}'
    if k == 'resetalias':
        return f'reset alias {op[1]}'
    if k == 'resetmod':
        return 'reset module'
    if k == 'resetall':
        return 'reset alias *'
    if k == 'cfgset':
        return f'configure session set allow_user_specified_id := {"true" if op[1] else "false"}'
    if k == 'cfgreset':
        return 'configure session reset allow_user_specified_id'
    if k == 'script':
        return '; '.join(op_text(s) for s in op[1]) + ';'
    raise core.HarnessError(f'unknown op {op}')


# ----------------------------------------------------------------------
# driver: transcription of the server side

class InTxError(Exception):
    pass


class ProbeISE(Exception):
    pass


class Worker:
    def __init__(self):
        self.LAST_STATE = None            # worker.py global
        self.last_pickled_state = None    # pool-side BaseWorker._last_pickled_state


class Server:
    """dbview.DatabaseConnectionView + Database + the protocol's use of them"""

    def __init__(self):
        S = preload()
        self.S = S
        self.db_user_schema = S['base_user']
        self.reflection_cache = S['base_refl']
        self._modaliases = S['default_aliases']
        self._config = S['E']
        self._last_comp_state = None
        self.workers = [Worker(), Worker()]
        self._reset_tx_state()

    # -- dbview ---------------------------------------------------------
    def _reset_tx_state(self):
        self._txid = None
        self._in_tx = False
        self._in_tx_config = None
        self._in_tx_modaliases = None
        self._in_tx_savepoints = []
        self._in_tx_root_user_schema = None
        self._tx_error = False
        # harness bookkeeping (not part of the transcription): ids of savepoints the
        # backend destroyed through RELEASE; the server side never forgets them
        self.released_spids = set()
        self.rolled_back_to_released = False

    def get_modaliases(self):
        return self._in_tx_modaliases if self._in_tx else self._modaliases

    def set_modaliases(self, v):
        if self._in_tx:
            self._in_tx_modaliases = v
        else:
            self._modaliases = v

    def get_session_config(self):
        return self._in_tx_config if self._in_tx else self._config

    def set_session_config(self, v):
        if self._in_tx:
            self._in_tx_config = v
        else:
            self._config = v

    def tx_error(self):
        if self._in_tx:
            self._tx_error = True

    def start_tx(self):
        self._in_tx = True
        self._in_tx_config = self._config
        self._in_tx_modaliases = self._modaliases
        self._in_tx_root_user_schema = self.db_user_schema

    def start(self, unit):
        if self._tx_error:
            raise InTxError()
        if unit.tx_id is not None:
            self._txid = unit.tx_id
            self.start_tx()

    def start_implicit(self, unit):
        if self._tx_error:
            raise InTxError()
        if not self._in_tx:
            self.start_tx()

    def declare_savepoint(self, name, spid):
        self._in_tx_savepoints.append(
            (name, spid, (self.get_modaliases(), self.get_session_config())))

    def rollback_tx_to_savepoint(self, name):
        self._tx_error = False
        while self._in_tx_savepoints:
            if self._in_tx_savepoints[-1][0] == name:
                break
            self._in_tx_savepoints.pop()
        else:
            raise RuntimeError(f'savepoint {name} not found')
        _, spid, (modaliases, config) = self._in_tx_savepoints[-1]
        if spid in self.released_spids:
            self.rolled_back_to_released = True
        self._txid = spid
        self.set_modaliases(modaliases)
        self.set_session_config(config)

    def abort_tx(self):
        if not self._in_tx:
            raise core.HarnessError('abort_tx(): not in transaction')
        self._reset_tx_state()

    def apply_config_ops(self, ops):
        spec = self.S['compiler'].state.config_spec
        for op in ops:
            if op.scope is self.S['config'].ConfigScope.SESSION:
                self.set_session_config(op.apply(spec, self.get_session_config()))

    def on_success(self, unit):
        if not self._in_tx:
            if unit.user_schema is not None:
                self._set_user_schema(unit)
        if unit.modaliases is not None:
            self.set_modaliases(unit.modaliases)
        if unit.tx_commit:
            if not self._in_tx:
                raise core.HarnessError('"commit" outside of a transaction reached the server side')
            self._config = self._in_tx_config
            self._modaliases = self._in_tx_modaliases
            if unit.user_schema is not None:
                self._set_user_schema(unit)
            self._reset_tx_state()
        elif unit.tx_rollback:
            self._reset_tx_state()

    def _set_user_schema(self, unit):
        self.db_user_schema = pickle.loads(unit.user_schema)
        if unit.cached_reflection is not None:
            self.reflection_cache = pickle.loads(unit.cached_reflection)

    def check_in_tx_error(self, group):
        if self._tx_error:
            first = group[0]
            if (not (first.tx_rollback or first.tx_savepoint_rollback
                     or first.tx_abort_migration) or len(group) > 1):
                raise InTxError()

    # -- compiler pool --------------------------------------------------
    def _compile(self, text, widx):
        S = self.S
        w = self.workers[widx]
        req = env.Req(text, modaliases=self.get_modaliases(),
                      session_config=self.get_session_config())
        if self._in_tx:
            pickled = self._last_comp_state
            if w.last_pickled_state is pickled and w.LAST_STATE is not None:
                cstate = w.LAST_STATE      # REUSE_LAST_STATE_MARKER
            else:
                cstate = pickle.loads(pickled)
                cstate.set_root_user_schema(self._in_tx_root_user_schema)
            units, cstate = S['compiler'].compile_in_tx(
                state=cstate, txid=self._txid, request=req,
                expect_rollback=self._tx_error)
            w.LAST_STATE = cstate
            new_pickled = pickle.dumps(cstate, -1)
        else:
            units, cstate = S['compiler'].compile(
                user_schema=self.db_user_schema,
                global_schema=S['s_schema'].EMPTY_SCHEMA,
                reflection_cache=self.reflection_cache, database_config=S['E'],
                system_config=S['E'], request=req)
            new_pickled = None
            if cstate is not None:
                w.LAST_STATE = cstate
                new_pickled = pickle.dumps(cstate, -1)
        w.last_pickled_state = new_pickled
        self._last_comp_state = new_pickled
        return units

    def parse(self, text, widx):
        """dbview.parse(): compile, mask errors in an aborted tx, gate"""
        S = self.S
        try:
            group = self._compile(text, widx)
        except (S['errors'].EdgeQLSyntaxError, S['errors'].InternalServerError):
            raise
        except S['errors'].EdgeDBError:
            if self._tx_error:
                raise InTxError() from None
            raise
        self.check_in_tx_error(group)
        return group

    # -- protocol -------------------------------------------------------
    def run(self, text, widx, backend_fails, expect_error=False, released_name=None):
        """one client command. -> 'ok' | 'reject' | 'refused' | 'backend-fail' |
        'accepted' (the compiler accepted a command that the reference transaction
        must reject: not executed further)"""
        S = self.S
        try:
            group = self.parse(text, widx)
        except InTxError:
            self.tx_error()
            return 'refused'
        except S['errors'].InternalServerError:
            self.tx_error()
            raise
        except S['errors'].EdgeDBError as e:
            self.tx_error()
            self.last_error = f'{type(e).__name__}: {e}'
            return 'reject'
        except Exception as e:
            # a non-EdgeDB exception in the compiler reaches the client as an
            # InternalServerError; like every error it aborts the transaction
            self.tx_error()
            self.last_error = f'{type(e).__name__}: {e}'
            return 'internal-error'
        if expect_error:
            return 'accepted'
        try:
            if self._tx_error:
                # binary.pyx _execute_rollback
                unit = group[0]
                if not (unit.tx_savepoint_rollback or unit.tx_rollback
                        or unit.tx_abort_migration):
                    raise InTxError()
                if unit.tx_savepoint_rollback:
                    self.rollback_tx_to_savepoint(unit.sp_name)
                else:
                    self.abort_tx()
                return 'ok'
            if len(group) > 1:
                return self._execute_script(group, backend_fails)
            return self._execute(group[0], backend_fails, released_name)
        except InTxError:
            self.tx_error()
            return 'refused'

    def _execute(self, unit, backend_fails, released_name=None):
        self.start(unit)
        if backend_fails:
            self.tx_error()                     # dbv.on_error()
            if unit.tx_commit and self._in_tx:  # be_conn no longer in a tx
                self.abort_tx()
            self.tx_error()                     # binary.pyx main loop
            return 'backend-fail'
        if unit.tx_savepoint_rollback:
            self.rollback_tx_to_savepoint(unit.sp_name)
        if unit.tx_savepoint_declare:
            self.declare_savepoint(unit.sp_name, unit.sp_id)
        if released_name is not None:
            # execute.pyx / dbview.pyx have no code for RELEASE SAVEPOINT; the harness
            # only notes which savepoints the backend has destroyed
            live = [(n, i) for n, i, _ in self._in_tx_savepoints
                    if i not in self.released_spids]
            idx = [k for k, (n, _) in enumerate(live) if n == released_name]
            if idx:
                self.released_spids.update(i for _, i in live[idx[-1]:])
        if unit.config_ops:
            self.apply_config_ops(unit.config_ops)
        self.on_success(unit)
        return 'ok'

    def _execute_script(self, group, backend_fails):
        in_tx = self._in_tx
        if not in_tx:
            raise core.HarnessError('scripts outside a transaction block are not generated')
        for i, unit in enumerate(group):
            self.start_implicit(unit)
            if backend_fails and i == len(group) - 1:
                self.tx_error()
                return 'backend-fail'
            if unit.config_ops:
                self.apply_config_ops(unit.config_ops)
            self.on_success(unit)
        return 'ok'

    # -- probes (on a copy; never disturb the state) ---------------------
    def probe(self, text):
        """would `text`, sent as the next command, compile? -> (bool, state copy or None)"""
        S = self.S
        req = env.Req(text, modaliases=self.get_modaliases(),
                      session_config=self.get_session_config())
        try:
            if self._in_tx:
                cstate = pickle.loads(self._last_comp_state)
                cstate.set_root_user_schema(self._in_tx_root_user_schema)
                S['compiler'].compile_in_tx(
                    state=cstate, txid=self._txid, request=req,
                    expect_rollback=False)
                return True, cstate
            S['compiler'].compile(
                user_schema=self.db_user_schema,
                global_schema=S['s_schema'].EMPTY_SCHEMA,
                reflection_cache=self.reflection_cache, database_config=S['E'],
                system_config=S['E'], request=req)
            return True, None
        except S['errors'].InternalServerError as e:
            # the compiler cannot even position itself in the transaction
            raise ProbeISE(f'{text}: InternalServerError: {e}') from None
        except S['errors'].EdgeDBError as e:
            self.probe_error = f'{type(e).__name__}: {e}'
            return False, None


# ----------------------------------------------------------------------

def check_observable(srv: Server, model: Model, pick: int):
    """-> list of (sig, detail)"""
    out = []
    f = model.cur()
    for t in TYPES:
        ok, _ = srv.probe(f'select default::{t}')
        if ok != (t in f.types):
            out.append((f'type-visible:{"extra" if ok else "missing"}',
                        f'`select default::{t}` {"compiles" if ok else "is rejected"} but the '
                        f'reference transaction model says {t} '
                        f'{"exists" if t in f.types else "does not exist"} at this point'))
    # current module
    cur_mod = f.aliases.get(None, 'default')
    for m in ('std::math', 'std::cal', 'default'):
        if m != cur_mod and (pick + len(m)) % 2:
            continue
        ok, _ = srv.probe(MOD_PROBE[m].format(p=''))
        if ok != (m == cur_mod):
            out.append((f'module:{"stale" if ok else "lost"}',
                        f'bare-name probe for module {m} {"resolves" if ok else "does not resolve"}; '
                        f'model current module = {cur_mod}'))
    for a in ALIASES:
        tgt = f.aliases.get(a)
        cands = [tgt] if tgt else []
        other = MODS[(pick + len(cands)) % len(MODS)]
        if other != tgt:
            cands.append(other)
        for m in cands:
            ok, _ = srv.probe(MOD_PROBE[m].format(p=a + '::'))
            if ok != (m == tgt):
                out.append((f'alias:{"stale" if ok else "lost"}',
                            f'probe {MOD_PROBE[m].format(p=a + "::")!r} '
                            f'{"resolves" if ok else "does not resolve"}; model alias {a} -> {tgt}'))
    want = bool(f.cfg.get('allow_user_specified_id', False))
    ok, cst = srv.probe(CFG_PROBE.format(n=pick % 10))
    if ok != want:
        out.append((f'config:{"stale-on" if ok else "lost"}',
                    f'an INSERT with an explicit id {"compiles" if ok else "is rejected"}; model '
                    f'session allow_user_specified_id = {want}'))
    # savepoints: a reference compiles iff the savepoint is live in the model
    if model.tx is not None:
        live = {nm for nm, _ in model.tx['sps']}
        for nm in SPS:
            verb = 'rollback to' if (pick + len(nm) + SPS.index(nm)) % 3 else 'release'
            ok, _ = srv.probe(f'{verb} savepoint {nm}')
            if ok != (nm in live):
                out.append((f'savepoint:{"stale" if ok else "lost"}',
                            f'`{verb} savepoint {nm}` {"compiles" if ok else "is rejected"} but in the '
                            f'reference model the live savepoints are {sorted(live)}'))
    # state held by the server side vs model
    sa = dict(srv.get_modaliases())
    if sa != f.aliases:
        out.append(('server-aliases', f'aliases held for the session {sa} != model {f.aliases}'))
    sc = {k: v.value for k, v in srv.get_session_config().items()}
    if sc != f.cfg:
        out.append(('server-config', f'session config {sc} != model {f.cfg}'))
    return out


def run_case(case):
    """-> (violations [(sig, detail)], info)"""
    S = preload()
    srv = Server()
    model = Model()
    info = dict(status='ok', steps=0, outcomes=[], features=set())
    viol = []
    declared = {}
    seen_rollbackto = False
    pending_recovery = False
    trace = []
    for i, (op, fault, widx) in enumerate(case['ops']):
        op = _tup(op)
        if op[0] == 'script' and not (model.tx and not model.in_error()):
            continue
        text = op_text(op)
        before_in_tx = bool(model.tx)
        expected = model.step(op, fault)
        backend_fails = expected == 'backend-fail'
        try:
            got = srv.run(text, widx, backend_fails,
                          expect_error=expected in ('reject', 'refused'),
                          released_name=op[1] if op[0] == 'release' else None)
        except S['errors'].InternalServerError as e:
            viol.append(('internal-error', f'step {i} `{text}`: InternalServerError: {e}'))
            break
        trace.append(f'{i}: [{"tx" if before_in_tx else "--"} w{widx}{" FAULT" if fault else ""}] '
                     f'{text}  -> server {got}, model {expected}')
        info['steps'] += 1
        info['outcomes'].append(expected)
        # features for the non-triviality rule
        if op[0] == 'declare' and expected == 'ok':
            declared[op[1]] = declared.get(op[1], 0) + 1
        if op[0] in ('start', 'commit', 'rollback') and expected == 'ok':
            declared = {}
        if op[0] == 'rollbackto' and expected == 'ok':
            if declared.get(op[1], 0) >= 2:
                info['features'].add('rollback-to-redeclared-name')
            seen_rollbackto = True
            if pending_recovery:
                info['features'].add('recovered-by-rollback-to')
        if op[0] == 'release' and expected == 'ok' and seen_rollbackto:
            info['features'].add('release-after-rollback-to')
        if expected in ('reject', 'backend-fail') and before_in_tx:
            pending_recovery = True
            info['features'].add('fault-in-tx:' + expected)
        if op[0] == 'rollback' and pending_recovery:
            info['features'].add('recovered-by-rollback')
        if op[0] in ('rollback', 'rollbackto') and expected == 'ok':
            pending_recovery = False
        if op[0] in ('create', 'drop') and expected == 'ok' and model.tx and model.tx['sps']:
            info['features'].add('ddl-inside-savepoint')
        if op[0] == 'script':
            info['features'].add('script:' + expected)
        if expected == 'unspecified' or (got == 'internal-error' and expected == 'refused'):
            # RESET ALIAS of an alias that is not set: the compiler raises KeyError
            # (an internal error for the client).  Not a clause of this property;
            # counted, and the history ends here.
            info['anomaly'] = f'{text}: {got} ({getattr(srv, "last_error", "")})'
            if expected == 'unspecified':
                break
            continue
        if _norm(got) != _norm(expected):
            err = getattr(srv, 'last_error', '')
            viol.append((f'outcome:{op[0]}:server-{got}:model-{expected}',
                         f'step {i} `{text}`: the server side answers {got} '
                         f'({err}) but a PostgreSQL-style transaction would answer {expected}'))
            break
        if (srv._in_tx, srv._tx_error) != (bool(model.tx), model.in_error()):
            viol.append(('tx-status',
                         f'step {i} `{text}`: server in_tx={srv._in_tx} error={srv._tx_error}, '
                         f'model in_tx={bool(model.tx)} error={model.in_error()}'))
            break
        if model.in_error():
            continue   # nothing but a rollback is accepted: nothing to observe
        try:
            obs = check_observable(srv, model, i)
        except ProbeISE as e:
            viol.append((f'probe-internal-error:after-{op[0]}',
                         f'after step {i} `{text}`: compiling the next statement fails with an internal '
                         f'error although the reference transaction is in a normal state: {e}'))
            break
        if srv.rolled_back_to_released:
            # known root cause (see known_findings.json): the server side resolved
            # ROLLBACK TO SAVEPOINT to a savepoint that RELEASE had destroyed
            info['features'].add('rollback-to-resolves-to-released-savepoint')
            if obs:
                viol.append(('release-untracked:' + obs[0][0],
                             f'after step {i} `{text}`: the server side (dbview) resolved the name to a '
                             f'savepoint that had been released, and re-synchronised the compiler to it: '
                             + ' | '.join(d for _, d in obs[:3])))
            break
        if obs:
            sig, d = obs[0]
            viol.append((f'{sig}:after-{op[0]}',
                         f'after step {i} `{text}`: ' + ' | '.join(d for _, d in obs[:3])))
            break
    if viol:
        sig, d = viol[0]
        viol[0] = (sig, d + '\n--- history ---\n' + '\n'.join(trace))
    info['features'] = sorted(info['features'])
    return viol, info


def _norm(outcome):
    """'reject' (this statement is wrong) and 'refused' (the transaction is aborted)
    are both "the statement fails and changes nothing"; which message wins when both
    apply is not part of the property"""
    return 'error' if outcome in ('reject', 'refused') else outcome


def _tup(op):
    if op[0] == 'script':
        return ('script', [tuple(s) for s in op[1]])
    return tuple(op)


# ----------------------------------------------------------------------

def _strategy():
    """Model-guided generation: the reference model is stepped while the history is
    drawn, only to *bias* the next choice towards commands that are meaningful in
    the current state (a savepoint that exists, a type that can be dropped, a
    recovery when the transaction is aborted); every command remains possible in
    every state."""
    from hypothesis import strategies as st

    def pick(draw, items):
        return items[draw(st.integers(0, len(items) - 1))]

    def simple_op(draw, frame, sensible):
        have = sorted(frame.types)
        missing = [t for t in TYPES if t not in frame.types]
        k = draw(st.integers(0, 19))
        if k <= 4:
            pool = missing if (sensible and missing) else TYPES
            return ('create', pick(draw, pool))
        if k <= 6:
            pool = have if (sensible and have) else TYPES
            return ('drop', pick(draw, pool))
        if k <= 8:
            pool = have if (sensible and have) else TYPES
            return ('select', pick(draw, pool))
        if k == 9:
            return ('select1',)
        if k == 10:
            return ('bad', draw(st.integers(0, 2)))
        if k == 11:
            return ('setmod', pick(draw, ['std::math', 'std::cal', 'default']))
        if k <= 13:
            return ('setalias', pick(draw, ALIASES), pick(draw, MODS))
        if k == 14:
            return ('resetmod',)
        if k == 15:
            set_aliases = [a for a in ALIASES if a in frame.aliases]
            if set_aliases:
                return ('resetalias', pick(draw, set_aliases))
            return ('setalias', pick(draw, ALIASES), pick(draw, MODS))
        if k == 16:
            return ('resetall',)
        if k <= 18:
            return ('cfgset', draw(st.booleans()))
        return ('cfgreset',)

    def any_tx_op(draw):
        k = draw(st.integers(0, 6))
        if k == 0:
            return ('start',)
        if k == 1:
            return ('commit',)
        if k == 2:
            return ('rollback',)
        if k == 3:
            return ('declare', pick(draw, SPS))
        if k == 4:
            return ('release', pick(draw, SPS))
        return ('rollbackto', pick(draw, SPS))

    @st.composite
    def cases(draw):
        n = draw(st.integers(8, 26))
        focus = draw(st.booleans())   # savepoint-focused histories
        m = Model()
        ops = []
        discarded = set()
        for _ in range(n):
            r = draw(st.integers(0, 99))
            frame = m.cur()
            if m.tx is None:
                if r < 35:
                    op = ('start',)
                elif r < 80:
                    op = simple_op(draw, frame, sensible=r < 70)
                elif r < 90:
                    op = any_tx_op(draw)
                else:
                    op = ('bad', draw(st.integers(0, 2)))
            elif m.in_error():
                names = [nm for nm, _ in m.tx['sps']]
                if r < 30:
                    op = ('rollback',)
                elif r < 75 and names:
                    op = ('rollbackto', pick(draw, names))
                elif r < 85:
                    op = any_tx_op(draw)
                else:
                    op = simple_op(draw, frame, sensible=True)
            else:
                names = [nm for nm, _ in m.tx['sps']]
                stale = sorted(discarded - set(names))
                if focus:
                    # remap r so that savepoint traffic dominates:
                    # declare 24, rollback-to 26, release 8, stale reference 16, DDL 18, rest 8
                    if r < 24:
                        r = r * 16 // 24
                    elif r < 50:
                        r = 16 + (r - 24) * 16 // 26
                    elif r < 58:
                        r = 32 + (r - 50) * 6 // 8
                    elif r < 74:
                        r = 38 + (r - 58) * 8 // 16
                    elif r < 92:
                        r = 49 + (r - 74) * 22 // 18
                    else:
                        r = 71 + (r - 92) * 29 // 8
                if r < 16:
                    if names and draw(st.integers(0, 9)) < 4:
                        op = ('declare', pick(draw, names))    # same name again
                    else:
                        op = ('declare', pick(draw, SPS))
                elif r < 32 and names:
                    op = ('rollbackto', pick(draw, names))
                elif r < 38 and names:
                    op = ('release', pick(draw, names))
                elif r < 46 and stale:
                    # a savepoint that was released or discarded by a rollback-to
                    op = (pick(draw, ['rollbackto', 'release']), pick(draw, stale))
                elif r < 49:
                    op = any_tx_op(draw)
                elif r < 71:
                    have = sorted(frame.types)
                    missing = [t for t in TYPES if t not in frame.types]
                    if missing and (not have or draw(st.integers(0, 2)) > 0):
                        op = ('create', pick(draw, missing))
                    else:
                        op = ('drop', pick(draw, have))
                elif r < 83:
                    op = simple_op(draw, frame, sensible=r < 80)
                elif r < 88:
                    k = draw(st.integers(2, 3))
                    op = ('script', [simple_op(draw, frame, sensible=True) for _ in range(k)])
                elif r < 94:
                    op = ('commit',)
                elif r < 97:
                    op = ('rollback',)
                else:
                    op = ('bad', draw(st.integers(0, 2)))
            fault = draw(st.integers(0, 7)) == 0
            widx = draw(st.integers(0, 1))
            if op[0] == 'script' and not (m.tx and not m.in_error()):
                continue
            before = [nm for nm, _ in m.tx['sps']] if m.tx else []
            res = m.step(op, fault)
            after = [nm for nm, _ in m.tx['sps']] if m.tx else []
            if m.tx is None:
                discarded = set()
            else:
                discarded |= set(before) - set(after)
            ops.append([_jsonable(op), fault, widx])
            if res == 'unspecified':
                break
        return dict(ops=ops)
    return cases()


def _jsonable(op):
    if op[0] == 'script':
        return ['script', [list(s) for s in op[1]]]
    return list(op)


def _run(rec, case):
    viol, info = run_case(case)
    if info['status'] != 'ok':
        rec.evaluations += 1
        rec.skip(info['status'])
        return
    feats = info['features']
    nontrivial = any(f in feats for f in (
        'rollback-to-redeclared-name', 'release-after-rollback-to',
        'recovered-by-rollback', 'recovered-by-rollback-to'))
    rec.case(case, nontrivial=nontrivial, classes=feats,
             sample={'history': [op_text(_tup(o)) + (' [backend fails]' if f else '') + f' @w{w}'
                                 for o, f, w in case['ops']][:14]})
    rec.extra['steps'] = rec.extra.get('steps', 0) + info['steps']
    if info.get('anomaly'):
        rec.extra['anomalies_internal_error_on_unset_alias_reset'] = rec.extra.get(
            'anomalies_internal_error_on_unset_alias_reset', 0) + 1
    oc = rec.extra.setdefault('step_outcomes', {})
    for o in info['outcomes']:
        oc[o] = oc.get(o, 0) + 1
    for sig, detail in viol[:1]:
        rec.violation(sig, case, detail)


def shard(rec, idx, nshards, seed, tier):
    preload()
    n = 16 if tier == 'quick' else 400
    core.run_given(_strategy(), lambda c: _run(rec, c), seed=seed * 1000 + idx,
                   max_examples=n)


def replay(case):
    preload()
    viol, _ = run_case(case)
    return '; '.join(f'{s}: {d}' for s, d in viol[:2]) or None


def shrink(case, sig):
    def fails(c):
        v, _ = run_case(c)
        return any(s == sig for s, _ in v)

    def simplify(c):
        for sub in core.list_simplify(c['ops']):
            yield dict(c, ops=sub)
    return core.greedy_shrink(case, fails, simplify, budget_s=120)
