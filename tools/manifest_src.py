SETUP = './setup.sh'
HOOKS = dict(
    guard='EDGEDB_VERIF',
    enable='none needed: no guarded code exists in /repo; the harness observes through public functions and monkey-patching from its own process',
    baseline_off_cmd='cd /repo && /venv/bin/python -m pytest -ra -q -p no:cacheprovider --timeout=900 --continue-on-collection-errors tests/common tests/test_profiling.py tests/test_sourcecode.py',
    source_commits=[],
    add_only=True,
)
NOTES = ('All checks: ./check <ID> --tier quick|thorough [--replay FILE]; exit 0 held / 1 VIOLATION / 2 harness error (never a verdict). '
         'Checks import Python from /repo (or $VERIF_REPO) and rebuild the Rust parser FFI from the working tree on every run (incremental cargo build).')
NOT_APPLICABLE = {}
CHECKS = {
 'C20': dict(
    text='Exhaustive enumeration of all dependency graphs on <=3 nodes over {none,hard,merge,weak,loop-control} per ordered pair (n=4 over {none,hard,weak} in thorough) plus Hypothesis graphs up to 10 nodes, each judged by a validity predicate (permutation, hard/merge deps first, weak honoured when globally acyclic), an independent DFS cycle test, unresolved-reference rule, sort/sort_ex/normalize agreement and same-process + cross-PYTHONHASHSEED determinism. Small-scope exhaustive + sampled larger scope is the right level: the function is pure and small graphs exercise every branch.',
    design_ref='DESIGN.md section 2, C20',
    note='Trusts the 40-line DFS cycle detector in the harness. Graphs whose only cycles pass through loop_control edges accept either outcome (not named by the property).',
    technique='property-based testing: exhaustive small-scope enumeration + Hypothesis random graphs against a validity predicate and independent cycle detection'),
 'C18': dict(
    text='Every quoting form the repository offers (EdgeQL: quote_literal/escape_string, dollar_quote_literal, quote_ident x all flag combinations, param_to_str, codegen string and bytes constants; SQL: quote_literal, quote_e_literal, quote_ident/quote_col, qname, quote_type, quote_bytea_literal, pg codegen String/Bytea constants, dbops encode_value) is applied to generated strings: exhaustively to all strings of length <=3 (thorough: <=4) over a 26-symbol adversarial alphabet and all byte strings of length <=3 over 17 byte values, to every keyword of both keyword tables in three casings plus delimiter fragments, and to Hypothesis text/binary. Oracle: the repository real Rust lexer (via FFI) must read the EdgeQL form back as exactly one token of the expected kind with the original value, alone and embedded in a statement; a reference PostgreSQL lexer (manual 4.1) does the same for the SQL forms. Exhaustive-small + random is the right level: escaping bugs need only short inputs.',
    design_ref='DESIGN.md section 2, C18',
    note='Trusted base: oracles/pglex.py (reference PostgreSQL lexer, ~250 lines, self-tested on the manual examples; standard_conforming_strings=on, UTF-8) and the FFI bridge to the repository lexer. PostgreSQL keyword classes are the manual ones restricted to words in the repository table.',
    technique='property-based testing: exhaustive short strings over an adversarial alphabet + Hypothesis text, round-trip through the real EdgeQL lexer and a reference PostgreSQL lexer'),
 'C15': dict(
    text='The real connection pool (edb/server/connpool/pool.py) runs under a harness-owned asyncio loop with a virtual clock; connect/disconnect callbacks park futures so the generated schedule decides every completion order. Hypothesis generates schedules (<=80 ops: acquire/release/discard on 1-7 databases, connect ok/fail/3D000, disconnect ok/fail, clock advances that fire ticks, GC and log timers, prune of one/all databases; capacity 1-5) and all schedules of length 4 (thorough: 5) over 12 ops are enumerated for capacity 1 and 2. After every step the invariants of the property are checked against the true backend state kept by the callbacks. Schedule-owning stateful PBT is the right level: the pool is single-threaded asyncio code whose only nondeterminism is event order.',
    design_ref='DESIGN.md section 2, C15',
    note='Explores orders of completion events and timers under FIFO callback scheduling, not OS-thread interleavings (the code has none). Exceptions that reach the loop handler are counted as anomalies, not judged (not a clause of the property).',
    technique='stateful property-based testing (Hypothesis-generated operation/fault schedules + exhaustive short schedules) with history invariants over a harness-owned event loop'),
 'C16': dict(
    text='Same simulation as C15; every generated prefix (no disconnect failures, no pruning) is followed by a fair closing phase (holders release in rotation, pending connects succeed or, for a drawn database, always fail, disconnects complete, the clock jumps from timer to timer). A request still pending after K = 50 x (requests+capacity+databases) rounds is a violation: bounded liveness as a work bound, never a wall-clock timeout. Three genuine starvation classes found on the unchanged tree are listed in known_findings.json and reported as KNOWN-FINDING; starvations are classified by root-cause features so that other causes are still reported.',
    design_ref='DESIGN.md section 2, C16',
    note='Liveness under one family of fair schedulers and a finite bound; the classification of starvation causes (used only to tell known findings from new ones) reads pool internals.',
    technique='stateful property-based testing with a fair closing schedule and a bounded-work liveness oracle'),
 'C17': dict(
    text='The real AbstractPool.compile/compile_in_tx/compile_notebook/compile_sql, BaseWorker.call, WorkerQueue and one private instance of the real compiler_pool/worker.py per fake worker are driven with generated request histories (<=30 requests, 1-3 workers, 1-3 databases; state parts drawn from identity-stable version pools incl. A->B->A reuse, fresh equal copies and empty maps; faults: compile errors and un-unpicklable transfers for each part x 6 exception types; worker chosen by index or by the real queue). Oracle: the arguments the (recording) compiler receives equal what the caller passed, transaction requests get exactly their own compiler state, and after every request the server-side belief equals what the worker module holds. Model-based stateful PBT is the right level: the protocol is deterministic given the history.',
    design_ref='DESIGN.md section 2, C17',
    note='Process transport (amsg/worker_proc) and the compiler are replaced in-process; multitenant_worker.py is not driven. Requests are sequential.',
    technique='stateful property-based testing: differential on worker-side arguments and belief-vs-truth invariant over generated request/fault histories'),
 'C19': dict(
    text='Histories (<=25 ops) of SET / RESET / object INSERT (+=) / filtered RESET (-=) at session, branch and instance scope over 25 settings of the real spec covering every kind (bool, int, str, enum-like str, enums, duration, memory, multi-valued, object-valued with exclusive fields and subtypes), with valid and ill-typed values, injected both as Operation objects and through CONFIGURE text compiled by the server compiler. A three-dict reference model predicts config.lookup for every setting after every step; rejected operations must change nothing; at the end from_json(to_json(m)) == m and to_edgeql(m) re-compiled and re-applied gives the same effective values. Plus exhaustive unit x magnitude grids for Duration / ConfigMemory printing and parsing.',
    design_ref='DESIGN.md section 2, C19',
    note='Range constraints are enforced by PostgreSQL at execution time and are out of reach; object INSERT / filtered RESET yield no static operations and are injected as ADD/REM operations, as the server does with the backend reply.',
    technique='stateful property-based testing against a three-scope reference model, plus JSON / CONFIGURE-text round trips and exhaustive scalar grids'),
 'C01': dict(
    text='Texts for all five grammar entry points (fragment, block, SDL document, migration body, extension-package body) from three generators: the ~1 400 snippets of the upstream syntax suites, every statement of edb/lib and every tests/schemas/*.esdl document; a text grammar covering all binary/unary/postfix operators with random explicit parenthesisation and same-operator chains, every literal kind, quoted identifiers, clauses, shapes, DML, FOR/WITH/GROUP, embedded in DDL/SDL/migration/CONFIGURE templates; and generated expressions spliced into corpus statements by AST span. Each accepted text is printed in up to four printer modes, re-parsed with the repository lexer+LR driver, compared field by field (span excluded; five documented spelling equivalences) and printed again for byte-identical idempotence. Failures are bucketed by innermost differing AST field so one defect does not hide the next.',
    design_ref='DESIGN.md section 2, C01',
    note='LR tables come from the harness LR generator over the repository grammar (validated by the upstream syntax suites). 7 genuine printer defects remain as known findings; 15 were repaired by fix: commits.',
    technique='property-based testing: print/re-parse round trip with AST equality and print idempotence over corpus, grammar-generated and spliced texts'),
 'C02': dict(
    text='Pairs (A, B) of valid-by-construction schemas (feature model: modules, scalars/enums, abstract/concrete types with single, chained and multiple inheritance, single/multi required/optional properties and links, link properties with constraints, defaults, computeds incl. backlinks, overloaded pointers, pointer/type constraints with errmessage and annotations, indexes, abstract+inheritable annotations, aliases, globals, functions, access policies); B is A with 1-3 of 27 edit kinds, a fresh schema, or empty. The migration is computed and committed exactly as edb.testbase.lang.run_ddl does (apply_sdl -> delta_schemas -> ddlast_from_delta -> CREATE MIGRATION); the result must equal apply_sdl(B) under an independent field-by-field semantic dump and under the maintainers diff (empty both ways); the committed DDL script is re-parsed from text, replayed on A and compared too.',
    design_ref='DESIGN.md section 2, C02',
    note='Test-mode path (no prompts, no data); semdump ignores ids, backend names, positions, inherited_fields bookkeeping and the overloaded spelling flag; expressions are compared as programs. Three genuine defects are known findings.',
    technique='property-based testing: generated schema pairs, differential against apply_sdl(B) with two independent comparators plus DDL-text replay'),
 'C11': dict(
    text='For generated schema values, 3 variants each: module blocks permuted / split / declarations hoisted to fully-qualified top level, declarations permuted within modules, members permuted within type bodies (rendered by the harness, not by the repository printer). Every variant must be accepted iff the canonical document is and produce an equal schema (independent semantic dump + empty delta both ways).',
    design_ref='DESIGN.md section 2, C11',
    note='Schemas come from the feature model of gen/sdl.py; weak (untypeable-path) dependencies are rare in it - the ordering function itself is covered exhaustively by C20.',
    technique='metamorphic property-based testing: permutations of SDL documents must yield equal schemas'),
 'C10': dict(
    text='Chains of 2-5 schemas (S1 from the feature model, each next one by 1-3 of 28 edit kinds incl. renames, re-parenting with positional base insertion, retyping, computed<->stored, base drops; optionally a final empty schema). Every accepted step is followed by a comparison of the evolved schema with the schema built directly from Si (apply_sdl on the standard library) under the independent semantic dump (every step) and the maintainers diff (last step); after the final migration to the empty schema no user object may remain.',
    design_ref='DESIGN.md section 2, C10',
    note='Same trusted base and exclusions as C02; the root causes recorded for C02 are also known findings here because chains reach them.',
    technique='property-based testing: path independence of generated migration chains (step-by-step vs direct), differential with two comparators'),
 'C03': dict(
    text='Schemas reached directly from generated SDL, through chains of computed migrations, and through cross-module DDL issued from a session whose current module differs from the altered object (short names resolved through the session) are described as DDL and as SDL (ddl_text_from_schema / sdl_text_from_schema); the text is applied to a database holding only the standard library under a drawn session module (default, other, a module that does not exist) and the rebuilt schema must equal the original (independent semantic dump; maintainers diff empty both ways). Internal errors and rejections of the produced text are violations.',
    design_ref='DESIGN.md section 2, C03',
    note='DESCRIBE is exercised through schema/ddl.py text functions (the server compiler returns exactly this text); module aliases that shadow real module names are not generated.',
    technique='property-based testing: describe -> apply round trip over generated schemas x output language x replaying session'),
}
