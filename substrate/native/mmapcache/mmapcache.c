/* LD_PRELOAD shim for the harness processes: recycle small anonymous mappings.
 *
 * CPython 3.12 allocates its frame data-stack chunks and obmalloc arenas with
 * mmap(NULL, n, RW, PRIVATE|ANON) and returns them with munmap as soon as they are
 * empty.  The deeply recursive compilers of the repository cross chunk boundaries
 * ~7000 times per second, so each process does tens of thousands of mmap/munmap pairs
 * and twice as many page faults; with 16 worker processes in this VM the kernel time
 * for that exceeds the user time.  The shim keeps regions it handed out itself (exact
 * address and length are remembered) on a free list when they are unmapped and hands
 * them out again, zero-filled, for a later request of the same length - which is
 * indistinguishable from a fresh mapping for the caller.  Anything else goes to the
 * kernel unchanged.  Purely a performance aid: results are identical without it.
 */
#define _GNU_SOURCE
#include <sys/mman.h>
#include <sys/syscall.h>
#include <unistd.h>
#include <stddef.h>
#include <string.h>
#include <pthread.h>

#define MAXLEN (1u << 20)
#define NCACHE 256
#define NTRACK 8192            /* power of two */

static struct { void *p; size_t len; } cache[NCACHE];
static int ncache = 0;
static struct { void *p; size_t len; } track[NTRACK];   /* p==NULL empty, p==(void*)1 tombstone */
static int ntracked = 0;
static pthread_mutex_t mu = PTHREAD_MUTEX_INITIALIZER;

static inline size_t h(void *p) { return (((size_t)p) >> 12) * 2654435761u & (NTRACK - 1); }

static int track_add(void *p, size_t len) {
    if (ntracked > NTRACK / 2) return 0;
    size_t i = h(p);
    for (int n = 0; n < NTRACK; n++, i = (i + 1) & (NTRACK - 1))
        if (track[i].p == NULL || track[i].p == (void *)1) {
            track[i].p = p; track[i].len = len; ntracked++; return 1;
        }
    return 0;
}
static int track_del(void *p, size_t len) {
    size_t i = h(p);
    for (int n = 0; n < NTRACK; n++, i = (i + 1) & (NTRACK - 1)) {
        if (track[i].p == p) {
            if (track[i].len != len) return 0;
            track[i].p = (void *)1; ntracked--; return 1;
        }
        if (track[i].p == NULL) return 0;
    }
    return 0;
}

void *mmap(void *addr, size_t len, int prot, int flags, int fd, off_t off) {
    if (addr == NULL && len <= MAXLEN && prot == (PROT_READ | PROT_WRITE) &&
        flags == (MAP_PRIVATE | MAP_ANONYMOUS) && fd == -1) {
        void *p = NULL;
        pthread_mutex_lock(&mu);
        for (int i = ncache - 1; i >= 0; i--)
            if (cache[i].len == len) {
                p = cache[i].p;
                cache[i] = cache[ncache - 1];
                ncache--;
                break;
            }
        if (p != NULL) {
            if (track_add(p, len)) {
                pthread_mutex_unlock(&mu);
                memset(p, 0, len);
                return p;
            }
            pthread_mutex_unlock(&mu);
            syscall(SYS_munmap, p, len);
        } else {
            pthread_mutex_unlock(&mu);
        }
        p = (void *)syscall(SYS_mmap, addr, len, prot, flags, fd, off);
        if (p != MAP_FAILED) {
            pthread_mutex_lock(&mu);
            track_add(p, len);
            pthread_mutex_unlock(&mu);
        }
        return p;
    }
    return (void *)syscall(SYS_mmap, addr, len, prot, flags, fd, off);
}

void *mmap64(void *addr, size_t len, int prot, int flags, int fd, off_t off) {
    return mmap(addr, len, prot, flags, fd, off);
}

int munmap(void *addr, size_t len) {
    if (len <= MAXLEN) {
        pthread_mutex_lock(&mu);
        if (track_del(addr, len) && ncache < NCACHE) {
            cache[ncache].p = addr; cache[ncache].len = len; ncache++;
            pthread_mutex_unlock(&mu);
            return 0;
        }
        pthread_mutex_unlock(&mu);
    }
    return (int)syscall(SYS_munmap, addr, len);
}
