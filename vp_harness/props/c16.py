"""C16 — every connection request is eventually served (bounded liveness).

Generated: C15's schedules (without disconnect failures and without pruning a
database that has requests outstanding) as a prefix, then a deterministic fair
closing phase: holders release one by one, every pending connect succeeds
(or, for a drawn database, always fails), every pending disconnect completes,
the clock advances through ticks.

Oracle: within K = 50 x (requests + capacity + databases) closing rounds every
acquire future is done (a connection, or the connect error once retries are
exhausted).  K bounds work, not wall time.
"""
from __future__ import annotations

from vp_harness import core
from vp_harness.props import _pool

ID = 'C16'
LEVEL = 'exploration'
RULE = (
    'case = (max_capacity, prefix schedule of <=80 ops, closing order, optional '
    'always-failing database); after the prefix a fair closing phase runs until all '
    'requests are done or the work bound K is reached; a request still pending at K is '
    'a violation (lost wake-up / starvation). Non-trivial = at least one request was '
    'still waiting when the closing phase began; distinct by case hash.')
ASSUMPTIONS = [
    'liveness is checked under one family of fair schedulers (FIFO callbacks, holders '
    'release in a drawn rotation, connects complete in order); unfair schedules are '
    'outside the property',
    'disconnect failures and pruning of a database with outstanding requests are not '
    'part of the premises and are not generated',
]
MIN_EVALS = {'quick': 3000, 'thorough': 100000}


def preload():
    _pool._pool_mod()


def _run(rec, case):
    viol, info = _pool.run_liveness(case)
    cls = [f'cap={case["cap"]}']
    if info['more_dbs_than_cap']:
        cls.append('more-dbs-than-capacity')
    if info['waited_at_closing']:
        cls.append('waiters-at-closing')
    if info['fail_db']:
        cls.append('always-failing-db')
    if info['stats']['aborted']:
        cls.append('waiters-aborted-with-connect-error')
    if info['transfers']:
        cls.append('disconnects-completed(transfer/discard/gc)')
    rec.case(case, nontrivial=info['waited_at_closing'] > 0, classes=cls,
             sample={'cap': case['cap'], 'ops': case['ops'][:25],
                     'n_ops': len(case['ops']),
                     'waiting_at_closing': info['waited_at_closing'],
                     'closing_rounds': info['closing_rounds']})
    rec.extra['closing_rounds'] = rec.extra.get('closing_rounds', 0) + info['closing_rounds']
    for sig, detail in viol[:1]:
        rec.violation(sig, case, detail)
    if info['anomalies']:
        an = rec.extra.setdefault('anomalies_not_judged', {})
        for k, v in info['anomalies'].items():
            an[k] = an.get(k, 0) + v


def shard(rec, idx, nshards, seed, tier):
    _pool._pool_mod()
    n = 300 if tier == 'quick' else 12000
    core.run_given(_pool.case_strategy(True), lambda c: _run(rec, c),
                   seed=seed * 1000 + idx, max_examples=n)


def replay(case):
    viol, _ = _pool.run_liveness(case)
    return '; '.join(f'{s}: {d}' for s, d in viol[:3]) or None


def shrink(case, sig):
    def fails(c):
        v, _ = _pool.run_liveness(c)
        return any(s == sig for s, _ in v)
    return core.greedy_shrink(case, fails, _pool.simplify_case, budget_s=60)
