#!/bin/bash
# tools/with_patch.sh <patch.diff> <command...>: apply a patch to /repo, run the command, always revert.
set -u
P="$1"; shift
cd /repo || exit 2
if ! git diff --quiet; then echo "/repo is dirty; refusing" >&2; exit 2; fi
git apply "$P" || { echo "patch does not apply" >&2; exit 2; }
trap 'git -C /repo checkout -- . ; git -C /repo clean -fdq -e "*.pyc" edb tests 2>/dev/null' EXIT
cd /verif
"$@"
rc=$?
echo "exit=$rc"
exit $rc
