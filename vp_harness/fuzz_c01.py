"""Coverage-guided, token-aware fuzzing stage of C01 (thorough tier), on atheris / libFuzzer.

    python -m vp_harness.fuzz_c01 <out.json> <seed> <runs> <shard> <nshards>

* the fuzz input is EdgeQL *text*; a custom mutator tokenises it with the repository lexer and
  replaces / inserts / deletes / duplicates / swaps tokens and token ranges, drawing
  replacement tokens from a dictionary harvested from the corpus (keywords, operators,
  identifiers, literals) - byte-level mutation alone dies in the lexer;
* coverage feedback comes from the Python side of the front end: the grammar reduce
  actions (edb.edgeql.parser.grammar.*) and the printer (edb.edgeql.codegen), which are
  imported under atheris instrumentation; the Rust lexer / LR driver are not instrumented;
* the oracle is inside the target: the same round trip as the rest of C01
  (props.c01.roundtrip).  Failures do not crash the fuzzer: they are bucketed by the C01
  signature and the smallest input per bucket is kept, so one defect does not stop the search;
* -runs / -seed pin the campaign approximately (libFuzzer); the saved inputs are the
  reproducible unit and go through the ordinary `--replay`.
"""
from __future__ import annotations

import json
import os
import random
import sys


def main():
    out_path, seed, runs, shard, nshards = sys.argv[1], int(sys.argv[2]), int(sys.argv[3]), \
        int(sys.argv[4]), int(sys.argv[5])
    import atheris
    from vp_harness import env   # noqa: F401  (substrate)
    with atheris.instrument_imports(include=['edb.edgeql.codegen', 'edb.edgeql.parser.grammar',
                                             'edb.edgeql.parser.grammar.expressions',
                                             'edb.edgeql.parser.grammar.statements',
                                             'edb.edgeql.parser.grammar.ddl',
                                             'edb.edgeql.parser.grammar.sdl',
                                             'edb.edgeql.parser.grammar.commondl',
                                             'edb.edgeql.parser.grammar.session',
                                             'edb.edgeql.parser.grammar.config',
                                             'edb.edgeql.quote']):
        from edb.edgeql import codegen as _cg          # noqa: F401
        from edb.edgeql.parser import grammar as _g    # noqa: F401
        from edb.edgeql import parser as qlparser
        qlparser.preload_spec()
    from vp_harness.props import c01
    S = c01._setup()
    import edb._edgeql_parser as P
    corpus = [(e, t) for e, _n, t in S['corpus'] if e in ('block', 'fragment') and len(t) < 800]
    mine = [x for i, x in enumerate(corpus) if i % nshards == shard]

    def _kind(k):
        return 'Keyword' if isinstance(k, dict) else str(k)

    def toks(text):
        """-> [(text, kind)] or None"""
        try:
            r = P.tokenize(text)
            if getattr(r, 'errors', None):
                return None
            out = [(t._j.get('text', ''), _kind(t._j.get('kind', '?'))) for t in r.out]
            return [x for x in out if x[0]]
        except Exception:
            return None

    by_kind: dict = {}
    for _e, t in corpus[::2]:
        tl = toks(t)
        if tl:
            for x, k in tl:
                if len(x) < 24:
                    by_kind.setdefault(k, set()).add(x)
    by_kind = {k: sorted(v) for k, v in by_kind.items()}
    vocab = sorted({x for v in by_kind.values() for x in v})
    OPS = [x for x in vocab if not x[0].isalnum() and x[0] not in '"\'`$_']
    stats = dict(execs=0, accepted=0, failed=0)
    buckets: dict = {}
    seen_ok = set()
    finish_soon = [False]

    def mutate(data, max_size, mseed):
        try:
            return _mutate(data, max_size, mseed)
        except Exception:
            return data[:max_size]

    def _mutate(data, max_size, mseed):
        rnd = random.Random(mseed)
        try:
            text = data.decode('utf-8', 'ignore')
        except Exception:
            text = ''
        tl = toks(text)
        if not tl:
            tl = toks(rnd.choice(mine)[1] if mine else 'select 1') or [('select', 'kw'), ('1', 'int')]
        for _ in range(rnd.choice([1, 1, 1, 2, 3])):
            k = rnd.randint(0, 9)
            i = rnd.randrange(len(tl)) if tl else 0
            if k <= 3 and tl:
                # same-kind replacement keeps most inputs parseable
                same = by_kind.get(tl[i][1]) or vocab
                tl[i] = (rnd.choice(same), tl[i][1])
            elif k == 4:
                tl.insert(i, (rnd.choice(vocab), '?'))
            elif k == 5 and len(tl) > 1:
                del tl[i]
            elif k == 6 and tl:
                j = rnd.randrange(len(tl))
                if tl[i][1] == tl[j][1]:
                    tl[i], tl[j] = tl[j], tl[i]
            elif k == 7 and mine:
                other = toks(rnd.choice(mine)[1]) or []
                if other:
                    a = rnd.randrange(len(other))
                    b = min(len(other), a + rnd.randint(1, 8))
                    tl[i:i + rnd.randint(0, 3)] = other[a:b]
            elif k == 8 and tl:
                # wrap an operand and attach an operator
                op = rnd.choice(OPS) if OPS else '+'
                tl[i:i + 1] = [('(', '('), tl[i], (op, 'op'), tl[rnd.randrange(len(tl))], (')', ')')]
            elif tl:
                tl[i:i + 1] = [('(', '('), tl[i], (')', ')')]
        res = ' '.join(x for x, _ in tl).encode('utf-8')
        return res[:max_size]

    def finish():
        tmp = out_path + '.tmp'
        with open(tmp, 'w') as f:
            json.dump(dict(stats=stats, distinct_accepted=len(seen_ok), buckets=buckets), f)
        os.replace(tmp, out_path)

    modes = c01.MODES

    def target(data):
        stats['execs'] += 1
        # libFuzzer leaves through _exit(): neither atexit nor finally run, so dump periodically
        if stats['execs'] % 400 == 0:
            finish()
        try:
            text = data.decode('utf-8')
        except UnicodeDecodeError:
            return
        if not text.strip() or len(text) > 2000:
            return
        mode = modes[len(text) % len(modes)]
        status, sig, detail, c1 = c01.roundtrip('block', text, mode)
        if status == 'reject':
            return
        stats['accepted'] += 1
        if status == 'fail':
            stats['failed'] += 1
            b = buckets.get(sig)
            if b is None:
                finish_soon[0] = True
            if b is None or len(text) < len(b['case']['text']):
                buckets[sig] = dict(case={'entry': 'block', 'text': text, 'mode': mode, 'origin': 'fuzz'},
                                    detail=detail, count=(b['count'] + 1 if b else 1))
            else:
                b['count'] += 1
        elif c1 is not None and len(seen_ok) < 20000:
            seen_ok.add(hash(repr(c1)))
        if finish_soon[0]:
            finish_soon[0] = False
            finish()

    corpus_dir = out_path + '.corpus'
    os.makedirs(corpus_dir, exist_ok=True)
    for i, (_e, t) in enumerate(mine[:300]):
        with open(os.path.join(corpus_dir, f's{i}'), 'w') as f:
            f.write(t)
    argv = [sys.argv[0], corpus_dir, f'-runs={runs}', f'-seed={seed or 1}', '-max_len=2000',
            '-print_final_stats=0', '-verbosity=0', '-close_fd_mask=3']

    import atexit
    atexit.register(finish)
    try:
        atheris.Setup(argv, target, custom_mutator=mutate)
        atheris.Fuzz()
    finally:
        finish()


if __name__ == '__main__':
    main()
