"""Recompute-from-scratch invariants of a schema value (C04).

check(schema) -> list of (sig, detail); empty = intact.  Works on the user
FlatSchema beneath a ChainedSchema.
"""
from __future__ import annotations

import collections


def _flat(schema):
    from edb.schema import schema as s_schema
    if isinstance(schema, s_schema.ChainedSchema):
        return schema._top_schema
    return schema


def snapshot(schema):
    """immutable fingerprint of the user part (identity of the persistent maps
    is not enough: we want to notice mutation in place as well)"""
    fs = _flat(schema)
    return (
        hash(tuple(sorted((str(k), repr(v)) for k, v in fs._id_to_data.items()))),
        hash(tuple(sorted((str(k), str(v)) for k, v in fs._name_to_id.items()))),
        len(fs._id_to_data), len(fs._refs_to),
    )


def check(schema, dropped_names=(), dropped_ids=()):
    from edb.schema import objects as so, name as sn
    from edb.schema import functions as s_func, operators as s_oper
    out = []
    fs = _flat(schema)
    ids = set(fs._id_to_data.keys())
    if set(fs._id_to_type.keys()) != ids:
        out.append(('index:id_to_type', 'id_to_type and id_to_data disagree on the set of ids'))

    def exists(rid):
        if rid in ids:
            return True
        try:
            schema.get_by_id(rid)
            return True
        except Exception:
            return False

    exp_refs = collections.defaultdict(lambda: collections.defaultdict(set))
    exp_names = {}
    exp_global = {}
    exp_short = collections.defaultdict(set)
    for oid, data in fs._id_to_data.items():
        tname = fs._id_to_type[oid]
        sclass = so.ObjectMeta.get_schema_class(tname)
        # I1: every reference resolves
        for field in sclass.get_object_reference_fields():
            v = data[field.index]
            if v is None:
                continue
            try:
                rids = field.type.schema_refs_from_data(v)
            except Exception as e:
                out.append(('refs:unreadable', f'{tname} {oid}: field {field.name}: {e!r}'))
                continue
            for rid in rids:
                exp_refs[rid][(sclass, field.name)].add(oid)
                if not exists(rid):
                    nm = _name_of(fs, oid)
                    out.append((f'dangling:{tname}.{field.name}',
                                f'{tname} {nm}: field {field.name} references id {rid} '
                                f'which is not in the schema'))
        # names
        nfield = sclass.get_field('name')
        name = data[nfield.index] if nfield is not None else None
        if name is None:
            out.append(('name:none', f'{tname} {oid} has no name'))
            continue
        if issubclass(sclass, so.QualifiedObject):
            if name in exp_names:
                out.append(('name:duplicate', f'two objects named {name}'))
            exp_names[name] = oid
        else:
            exp_global[(sclass, name)] = oid
        if issubclass(sclass, (s_func.Function, s_oper.Operator)):
            exp_short[(sclass, sn.shortname_from_fullname(name))].add(oid)
    # I2: name indexes
    got_names = dict(fs._name_to_id.items())
    if got_names != exp_names:
        extra = sorted(map(str, set(got_names) - set(exp_names)))[:4]
        missing = sorted(map(str, set(exp_names) - set(got_names)))[:4]
        wrong = sorted(str(k) for k in set(got_names) & set(exp_names)
                       if got_names[k] != exp_names[k])[:4]
        out.append(('index:name_to_id',
                    f'name index differs from the objects\' own names: stale={extra} '
                    f'missing={missing} wrong-id={wrong}'))
    got_global = dict(fs._globalname_to_id.items())
    if got_global != exp_global:
        out.append(('index:globalname_to_id',
                    f'global name index differs: got {sorted(map(str, got_global))[:5]} '
                    f'expected {sorted(map(str, exp_global))[:5]}'))
    got_short = {k: set(v) for k, v in fs._shortname_to_id.items()}
    if got_short != dict(exp_short):
        out.append(('index:shortname_to_id', 'function/operator short-name index differs'))
    # I3: reverse reference index
    got_refs = {}
    for rid, m in fs._refs_to.items():
        for key, objs in m.items():
            s = set(objs.keys())
            if s:
                got_refs.setdefault(rid, {})[key] = s
    exp_refs2 = {rid: {k: set(v) for k, v in m.items() if v} for rid, m in exp_refs.items()}
    exp_refs2 = {rid: m for rid, m in exp_refs2.items() if m}
    if got_refs != exp_refs2:
        det = []
        for rid in set(got_refs) | set(exp_refs2):
            g, e = got_refs.get(rid, {}), exp_refs2.get(rid, {})
            for key in set(g) | set(e):
                gs, es = g.get(key, set()), e.get(key, set())
                if gs != es:
                    tgt = _name_of(fs, rid) if rid in ids else f'<std/other {rid}>'
                    det.append((f'{key[0].__name__}.{key[1]}',
                                f'referrers of {tgt} through {key[0].__name__}.{key[1]}: '
                                f'stale={[_name_of(fs, x) for x in sorted(gs - es)][:3]} '
                                f'missing={[_name_of(fs, x) for x in sorted(es - gs)][:3]}'))
        det.sort()
        out.append((f'index:refs_to:{det[0][0] if det else "?"}',
                    'reverse reference index differs from the objects\' own data: '
                    + '; '.join(d for _, d in det[:4])))
    # I6: keyed child collections (indexes, constraints, pointers, ... of an owner) cache the keys
    #     of their members; a by-name lookup through the owner must agree with the members' names
    for oid in list(fs._id_to_data.keys()):
        tname = fs._id_to_type[oid]
        sclass = so.ObjectMeta.get_schema_class(tname)
        fields = [f for f in sclass.get_object_reference_fields()
                  if isinstance(f.type, type) and issubclass(f.type, so.ObjectIndexBase)]
        if not fields:
            continue
        try:
            obj = schema.get_by_id(oid)
        except Exception:
            continue
        for field in fields:
            try:
                coll = obj.get_explicit_field_value(schema, field.name, None)
                if coll is None or getattr(coll, '_keys', None) is None:
                    continue
                members = coll.objects(schema)
                want = tuple(type(coll).get_key_for(schema, m) for m in members)
            except Exception as e:
                out.append((f'collection-unreadable:{tname}.{field.name}', f'{_name_of(fs, oid)}: {e!r}'))
                continue
            if tuple(coll._keys) != want:
                bad = [(str(a), str(b)) for a, b in zip(coll._keys, want) if a != b][:3]
                out.append((f'index:collection-keys:{tname}.{field.name}',
                            f'{tname} {_name_of(fs, oid)}: the keys cached by its `{field.name}` collection differ '
                            f'from the names of the members (cached, actual): {bad}'))
    # I4: lookups agree
    for name, oid in list(exp_names.items())[:400]:
        try:
            o = schema.get(name)
            if o.id != oid:
                out.append(('lookup:get', f'get({name}) returns id {o.id}, object has {oid}'))
        except Exception as e:
            out.append(('lookup:get', f'get({name}) fails: {type(e).__name__}: {e}'))
    for rid, m in list(exp_refs2.items())[:200]:
        if rid not in ids:
            continue
        try:
            obj = schema.get_by_id(rid)
            refs = {r.id for r in schema.get_referrers(obj)}
        except Exception as e:
            out.append(('lookup:get_referrers',
                        f'get_referrers({_name_of(fs, rid)}) fails: {type(e).__name__}: {e}'))
            continue
        exp = set().union(*m.values())
        if refs != exp:
            out.append(('lookup:get_referrers',
                        f'get_referrers({_name_of(fs, rid)}) = {len(refs)} objects, own data '
                        f'says {len(exp)}'))
    # I5: dropped objects are unreachable
    for nm in dropped_names:
        if nm in got_names:
            out.append(('dropped:name-index', f'dropped object {nm} still in the name index'))
    for did in dropped_ids:
        if did in ids or did in fs._refs_to and any(
                objs for objs in fs._refs_to[did].values()):
            out.append(('dropped:still-referenced',
                        f'dropped object id {did} still present or still has referrers recorded'))
    return out


def _name_of(fs, oid):
    from edb.schema import objects as so
    try:
        sclass = so.ObjectMeta.get_schema_class(fs._id_to_type[oid])
        return str(fs._id_to_data[oid][sclass.get_field('name').index])
    except Exception:
        return f'<{oid}>'
