"""C11 — SDL is declarative: declaration order does not matter.

Generated: a valid-by-construction schema value D (gen/sdl.py) and k variants:
module blocks permuted / split in two / declarations moved to fully-qualified
top level, declarations permuted inside a module, members permuted inside type
bodies.  All variants are rendered by the generator (the repository's printer
is not involved).

Oracle (metamorphic): every variant is accepted iff the canonical rendering is
and gives an equal schema (independent semantic dump + empty delta both ways).
"""
from __future__ import annotations

from vp_harness import core, schemaenv as SE
from vp_harness.gen import sdl as G

ID = 'C11'
LEVEL = 'exploration'
RULE = (
    'case = (schema value D, layout permutation, member permutation). Non-trivial = '
    'the variant reverses the relative order of at least one dependent pair of '
    'declarations (dependency known from the generator: a declaration whose text '
    'names another), or permutes members of a type with a computed / constraint / '
    'index; distinct by hash of the variant text.')
ASSUMPTIONS = ['schemas are drawn from the feature model of gen/sdl.py']
MIN_EVALS = {'quick': 200, 'thorough': 8000}


def preload():
    SE.setup()


def _positions(layout):
    pos = {}
    k = 0
    for it in layout:
        if it[0] == 'block':
            for i in it[2]:
                pos[(it[1], i)] = k
                k += 1
        else:
            pos[(it[1], it[2])] = k
            k += 1
    return pos


def run_case(case):
    """case = {'schema', 'variants': [{'layout', 'schema' (members permuted)}]}"""
    canon_text = G.render(case['schema'])
    try:
        T = SE.target_from_sdl(canon_text)
    except SE.Rejected as e:
        T = None
        rej = str(e)
    out = []
    import re as _re
    if T is None and _re.search(r'recursive|cycl|circular', rej, _re.I):
        # second clause of the property: every generated document is acyclic by construction
        # (a creation order exists for its declarations), so a rejection "for a cycle" is wrong
        out.append(('rejected-as-cyclic', f'a document without cyclic declarations is rejected: {rej}\n{canon_text}',
                    canon_text))
    for v in case['variants']:
        text = G.render(v['schema'], v['layout'])
        try:
            R = SE.target_from_sdl(text)
        except SE.Rejected as e:
            if T is not None:
                import re
                kind = re.sub(r"'[^']*'", "'_'", str(e).split('\n')[0])[:70]
                out.append((f'variant-rejected:{kind}',
                            f'canonical order is accepted, this order is rejected: {e}\n'
                            f'--- variant ---\n{text}', text))
            continue
        if T is None:
            out.append(('variant-accepted',
                        f'canonical order is rejected ({rej}), this order is accepted\n{text}', text))
            continue
        c = SE.compare(R, T, 'permuted vs canonical document')
        if c:
            out.append((c[0], c[1] + f'\n--- variant ---\n{text}', text))
    return out, T is not None


def _strategy():
    from hypothesis import strategies as st

    @st.composite
    def cases(draw):
        s = draw(G.schema_strategy())
        family = None
        if draw(st.integers(0, 2)) == 0:
            G.add_weak_family(s, draw)
        if draw(st.integers(0, 1)) == 0:
            # functions depending on constraints, tracer scopes, cross-module backlinks, diamonds ...
            from vp_harness.gen import families as F
            if draw(st.integers(0, 2)) > 0:
                fam = draw(st.sampled_from(F.STATIC))(draw, draw(st.sampled_from(sorted(s['modules']))))
            else:
                fam = F.draw_family(draw, s['modules'])
            s = F.add(s, fam['A'], draw)
            family = fam['name']
        variants = []
        for _ in range(3):
            s2 = G.permute_members(s, draw) if draw(st.booleans()) else s
            layout = draw(G.layout_strategy(s2))
            variants.append(dict(schema=s2, layout=layout))
        return dict(schema=s, variants=variants, family=family)
    return cases()


def _run(rec, case):
    out, accepted = run_case(case)
    deps = G.dependent_pairs(case['schema'])
    canon_pos = _positions([['block', m, list(range(len(ds)))]
                            for m, ds in case['schema']['modules'].items()])
    for v in case['variants']:
        pos = _positions(v['layout'])
        reversed_dep = any(
            (canon_pos[(a, i)] < canon_pos[(b, j)]) != (pos[(a, i)] < pos[(b, j)])
            for a, i, b, j in deps)
        members_perm = v['schema'] != case['schema']
        cls = []
        if reversed_dep:
            cls.append('dependent-pair-reversed')
        if members_perm:
            cls.append('members-permuted')
        if any(it[0] == 'top' for it in v['layout']):
            cls.append('top-level-qualified')
        if len([it for it in v['layout'] if it[0] == 'block']) > len(case['schema']['modules']):
            cls.append('module-block-split')
        if not accepted:
            cls.append('canonical-rejected')
        text = G.render(v['schema'], v['layout'])
        rec.case({'text': text}, nontrivial=reversed_dep or members_perm, classes=cls,
                 sample=text[:600])
    fam = f"|family:{case['family']}" if case.get('family') else ''
    for sig, detail, text in out[:1]:
        rec.violation(sig + fam, {'schema': case['schema'], 'family': case.get('family'),
                            'variants': [v for v in case['variants']
                                         if G.render(v['schema'], v['layout']) == text]},
                      detail)


def shard(rec, idx, nshards, seed, tier):
    SE.setup()
    n = 8 if tier == 'quick' else 300
    core.run_given(_strategy(), lambda c: _run(rec, c), seed=seed * 1000 + idx,
                   max_examples=n)


def replay(case):
    SE.setup()
    out, _ = run_case(case)
    return '; '.join(f'{s}: {d}' for s, d, _ in out[:2]) or None
