"""C06 — reported cardinality and duplicate-freedom bound the actual result.

Generated: (query, database instances).  Queries come from the type-directed
generator restricted to the fragment edb/tools/toy_eval_model.py evaluates
(SELECT with filters incl. equality / ?= on exclusive pointers, ORDER BY,
OFFSET / LIMIT, shapes with computed elements, paths through links, backlinks,
computed links, link properties, type intersections, set operators, DISTINCT,
??, IF/ELSE, IN, EXISTS, aggregates, tuples, arrays, FOR, WITH, DETACHED,
GROUP).  Instances conform to the schema (required pointers filled, exclusive
constraints respected, single pointers <= 1 value, empty tables frequent).

Oracle: compile_ast_to_ir(q).cardinality / .multiplicity against the multiset the
reference evaluator returns: ONE => exactly 1, AT_MOST_ONE => <= 1,
AT_LEAST_ONE => >= 1; multiplicity UNIQUE => no two equal elements (objects by
id), EMPTY => no element.  For every computed element of a top-level shape the
cardinality / required flag of the derived pointer is checked per source object,
and object-valued elements must be duplicate-free.  QueryUnit.cardinality must
be the image of the IR cardinality.
"""
from __future__ import annotations

import re

from vp_harness import core, schemaenv as SE
from vp_harness.gen import query as Q
from vp_harness.oracles import toyeval as TE

ID = 'C06'
LEVEL = 'exploration'
RULE = (
    'case = (query, 2 database instances). Non-trivial = accepted by the compiler and evaluated by the '
    'reference model, the query contains a cardinality-relevant construct (filter on an exclusive pointer, '
    'LIMIT, aggregate, ??, FOR, IF/ELSE, optional path, set operator) and the reported bound is not '
    '(MANY, DUPLICATE) or a result has 0-2 elements; distinct by (query text, instances).')
ASSUMPTIONS = [
    'reference semantics = edb/tools/toy_eval_model.py with inheritance-aware type extents and '
    'schema computables taken from the real schema (harness-side adaptation of the reference model)',
    'only the fragment the reference model evaluates; queries on which it raises are counted and skipped',
]
MIN_EVALS = {'quick': 5000, 'thorough': 120000}

_S: dict = {}


def preload():
    if _S:
        return _S
    SE.setup()
    from edb import errors
    from edb.edgeql import compiler as qlcompiler, parser as qlparser, qltypes
    from edb.schema import name as sn
    qlparser.preload_spec()
    schema = SE.migrate(SE.setup()['std'], Q.SCHEMA_SDL.strip().rstrip(';'))
    info = Q.introspect(schema)
    TE.setup(info, schema)
    _S.update(errors=errors, qlcompiler=qlcompiler, qlparser=qlparser, qltypes=qltypes, sn=sn,
              schema=schema, info=info)
    return _S


def compile_ir(text):
    S = preload()
    return S['qlcompiler'].compile_ast_to_ir(
        S['qlparser'].parse_query(text), S['schema'],
        options=S['qlcompiler'].CompilerOptions(modaliases={None: 'default'}))


def run_case(case):
    S = preload()
    qltypes = S['qltypes']
    info = dict(status='ok')
    text = case['text']
    try:
        ir = compile_ir(text)
    except S['errors'].InternalServerError as e:
        info.update(status='compiler-crash', why=str(e)[:50])
        return [], info
    except S['errors'].EdgeDBError as e:
        info.update(status='rejected', why=f'{type(e).__name__}: {str(e)[:50]}')
        return [], info
    except (AssertionError, KeyError, AttributeError, TypeError, ValueError, IndexError, RecursionError) as e:
        info.update(status='compiler-crash', why=f'{type(e).__name__}: {str(e)[:50]}')
        return [], info
    card = ir.cardinality
    mult = ir.multiplicity
    info.update(card=card.name, mult=getattr(mult, 'name', str(mult)), lens=[])
    viol = []
    toy = TE._T['toy']
    for k, inst in enumerate(case['instances']):
        db = TE.make_db(inst)
        try:
            res = TE.evaluate(text, db)
        except RecursionError:
            info.update(status='oracle-error', why='RecursionError')
            return [], info
        except Exception as e:
            info.update(status='oracle-error', why=f'{type(e).__name__}: {str(e)[:40]}')
            return [], info
        n = len(res)
        info['lens'].append(n)
        where = f'`{text}` on instance {k} ({len(inst["objs"])} objects): the reference evaluation gives {n} element(s)'
        if card is qltypes.Cardinality.ONE and n != 1:
            viol.append((f'cardinality:ONE:got-{min(n, 2)}', f'{where} but the compiler reports ONE'))
        elif card is qltypes.Cardinality.AT_MOST_ONE and n > 1:
            viol.append(('cardinality:AT_MOST_ONE:got-2+', f'{where} but the compiler reports AT_MOST_ONE'))
        elif card is qltypes.Cardinality.AT_LEAST_ONE and n < 1:
            viol.append(('cardinality:AT_LEAST_ONE:got-0', f'{where} but the compiler reports AT_LEAST_ONE'))
        mname = getattr(mult, 'name', '')
        if mname == 'UNIQUE' and not _is_object_path(text):
            cs = [TE.canon(v) for v in res]
            if len(set(cs)) != len(cs):
                dup = next(c for c in cs if cs.count(c) > 1)
                viol.append(('multiplicity:UNIQUE:duplicates' + (_root_cause(text) or _factoring(text, res)),
                             f'{where}, with duplicates ({dup} occurs {cs.count(dup)} times), but the compiler '
                             f'classifies the result as duplicate-free'))
        elif mname == 'EMPTY' and n:
            viol.append(('multiplicity:EMPTY:nonempty', f'{where} but the compiler classifies it as EMPTY'))
        # computed shape elements
        stype = ir.stype
        for v in res[:6]:
            if not isinstance(v, toy.Obj) or not v.shape:
                break
            for name, vals in v.shape.items():
                if not isinstance(vals, list) or name in ('id',):
                    continue
                # only elements the query itself computes (`cN := ...`): the cardinality of a plain
                # schema pointer is a schema fact, not an inference about this query
                if not re.fullmatch(r'c\d+', name):
                    continue
                try:
                    ptr = stype.maybe_get_ptr(ir.schema, S['sn'].UnqualName(name))
                except Exception:
                    ptr = None
                if ptr is None:
                    continue
                single = ptr.get_cardinality(ir.schema) is qltypes.SchemaCardinality.One
                req = bool(ptr.get_required(ir.schema))
                if single and len(vals) > 1:
                    viol.append(('shape-element:single:got-2+',
                                 f'`{text}` on instance {k}: shape element {name} is inferred single but '
                                 f'evaluates to {len(vals)} values for one object'))
                if req and len(vals) < 1:
                    viol.append(('shape-element:required:got-0',
                                 f'`{text}` on instance {k}: shape element {name} is inferred required but '
                                 f'evaluates to the empty set for one object'))
                if vals and isinstance(vals[0], toy.Obj) and ptr.get_expr(ir.schema) is not None:
                    ids = [x.id for x in vals if isinstance(x, toy.Obj)]
                    if len(set(ids)) != len(ids):
                        viol.append(('shape-element:link:duplicates',
                                     f'`{text}` on instance {k}: computed link {name} evaluates to a multiset '
                                     f'with duplicate objects'))
    return viol, info


def _is_object_path(text):
    """the result expression is a path ending in a link / backlink / type intersection: a proper
    set by definition of path semantics (the reference model is not reliable about deduplicating
    those when the path starts from an expression, so they are not judged)"""
    S = preload()
    from edb.edgeql import ast as qlast
    try:
        q = S['qlparser'].parse_query(text)
    except Exception:
        return False
    e = q
    while True:
        if isinstance(e, qlast.SelectQuery):
            e = e.result
        elif isinstance(e, qlast.Shape) and e.expr is not None:
            e = e.expr
        else:
            break
    return isinstance(e, qlast.Path) and len(e.steps) >= 2 and isinstance(
        e.steps[-1], (qlast.Ptr, qlast.TypeIntersection)) and not (
        isinstance(e.steps[-1], qlast.Ptr) and e.steps[-1].type == 'property')


def _coalesce_of_objects(text, res):
    """`a ?? b` over objects where both sides mention the same type: whether the two are correlated
    (path factoring) is decided differently by the reference model and by the inference code, and
    there is no second evaluator to adjudicate: not judged (counted in the evidence)"""
    toy = TE._T['toy']

    def has_obj(v):
        if isinstance(v, toy.Obj):
            return True
        if isinstance(v, (tuple, list)):
            return any(has_obj(x) for x in v)
        if isinstance(v, dict):
            return any(has_obj(x) for x in v.values())
        return False
    return ' ?? ' in text and any(has_obj(v) for v in res[:50])


def _factoring(text, res):
    """duplicates that arise because two occurrences of the same (non-detached) type name are one
    binding by path factoring: the inference code treats everything below such a binding as unique
    *per binding*, but the binding itself is not part of the result (known finding)"""
    import re
    S = preload()
    stripped = re.sub(r'detached \w+', 'detached_', text)
    names = [n for n in S['info'].types if len(re.findall(r'(?<![\w:.])' + n + r'(?![\w])', stripped)) >= 2]
    if not names:
        return ''
    if _coalesce_of_objects(text, res):
        return ':correlated-by-path-factoring:coalesce'
    # a tuple / set / operator whose operands mention the same type, one of them through a pointer
    for n in names:
        if re.search(r'\(?' + n + r'\)?\.\w+', stripped):
            return ':correlated-by-path-factoring'
    return ''


def _root_cause(text):
    """coarse root-cause tag for duplicate findings (used to tell known findings apart)"""
    import re
    for m in re.finditer(r'\bfor (x\d+) in ', text):
        v = m.group(1)
        body = text[m.end():]
        # the iterator variable is an operand of a UNION / set literal more than once
        if re.search(r'\{[^{}]*\b' + v + r'\b[^{}]*,[^{}]*\b' + v + r'\b[^{}]*\}', body) or \
                re.search(r'\b' + v + r'\b\)* union \(*' + v + r'\b', body):
            return ':for-iterator-unioned-with-itself'
        # a path from the iterator through a pointer (x.link, x.link.prop)
        if re.search(r'\b' + v + r'\.\w+', body):
            return ':for-iterator-path-assumed-disjoint'
        # the iterator is one operand of a UNION / set literal whose other operand repeats
        # in every iteration
        if re.search(r'\{[^{}]*\b' + v + r'\b[^{}]*\}', body) or re.search(
                r'(\b' + v + r'\b\)* union )|( union \(*' + v + r'\b)', body):
            return ':for-iterator-union-operand'
    return ''


# ----------------------------------------------------------------------
# stored cardinalities must stay justified when the schema evolves

DDL_SETUPS = [
    # (setup DDL, holder type, computed pointer, [commands that remove the justification])
    ("""create type Team { create required property region -> str; create required property code -> str;
                           create constraint exclusive on ((.region, .code)) };
        create type Player { create required property region -> str; create required property code -> str;
            create link team := (select Team filter .region = Player.region and .code = Player.code) };""",
     'Player', 'team',
     ['alter type Team drop constraint exclusive on ((.region, .code))']),
    ("""create type U1 { create required property name -> str { create constraint exclusive } };
        create type H1 { create link u := (select U1 filter .name = 'root') };""",
     'H1', 'u',
     ['alter type U1 alter property name drop constraint exclusive',
      'alter type U1 alter property name set multi']),
    ("""create abstract type B2 { create required property name -> str; create constraint exclusive on (.name) };
        create type U2 extending B2;
        create type H2 { create link u := (select U2 filter .name = 'root');
                         create property n := (select U2 filter .name = 'root').name };""",
     'H2', 'u',
     ['alter type B2 drop constraint exclusive on (.name)', 'alter type U2 drop extending B2']),
    ("""create type U3 { create required property name -> str { create constraint exclusive };
                         create multi link items -> U3 { create constraint exclusive } };
        create type H3 { create link owner := (select U3 filter .name = 'x');
                         create link holder := (select detached U3 filter .items = H3.owner) };""",
     'H3', 'holder',
     ['alter type U3 alter link items drop constraint exclusive',
      'alter type U3 alter property name drop constraint exclusive']),
    ("""create type U4 { create required property a -> str; create required property b -> int64;
                         create constraint exclusive on ((.a, .b)); create constraint exclusive on (.a) };
        create type H4 { create link u := (select U4 filter .a = 'k' and .b = 1) };""",
     'H4', 'u',
     ['alter type U4 drop constraint exclusive on (.a)',
      'alter type U4 drop constraint exclusive on ((.a, .b))']),
]


def run_ddl_case(case):
    """-> violations.  After every accepted command the stored cardinality of each computed
    pointer of the holder must equal what inference yields for its expression now."""
    S = preload()
    from edb.schema import objtypes as s_objtypes
    setup, holder, _ptr, cmds = DDL_SETUPS[case['setup']]
    try:
        schema = SE.run_ddl(SE.setup()['std'], 'create module default; ' + setup)
    except SE.Rejected as e:
        return [], dict(status='setup-rejected', why=str(e)[:60])
    viol = []
    accepted = []
    for ci in case['order']:
        cmd = cmds[ci % len(cmds)]
        try:
            schema = SE.run_ddl(schema, cmd)
        except SE.Rejected:
            continue
        accepted.append(cmd)
        obj = schema.get(f'default::{holder}', type=s_objtypes.ObjectType)
        for pn, ptr in obj.get_pointers(schema).items(schema):
            e = ptr.get_expr(schema)
            if e is None:
                continue
            stored_single = ptr.get_cardinality(schema) is S['qltypes'].SchemaCardinality.One
            try:
                ir = S['qlcompiler'].compile_ast_to_ir(
                    S['qlparser'].parse_query(f'select {holder} {{ zz_probe := ({e.text}) }}'), schema,
                    options=S['qlcompiler'].CompilerOptions(modaliases={None: 'default'}))
                z = ir.stype.getptr(ir.schema, S['sn'].UnqualName('zz_probe'))
                now_single = z.get_cardinality(ir.schema) is S['qltypes'].SchemaCardinality.One
            except S['errors'].EdgeDBError:
                continue
            if stored_single and not now_single:
                viol.append((f'stale-single:after-{cmd.split()[2] if len(cmd.split()) > 2 else "ddl"}-'
                             f'{"drop-constraint" if "drop constraint" in cmd else "alter"}',
                             f'after `{cmd}` was accepted, {holder}.{pn} is still stored as single, but its '
                             f'expression {e.text} is no longer a singleton under the remaining constraints '
                             f'(history: {accepted})'))
    return viol, dict(status='ok', accepted=len(accepted))


def _strategy():
    from hypothesis import strategies as st
    S = preload()
    opts = Q.QOpts(dml=False, params=False, globals_=False, funcs=False, aliases=False, group=False, toy=True)
    qs = Q.query_strategy(S['info'], opts)
    inst = TE.instance_strategy(S['info'])
    return st.fixed_dictionaries(dict(q=qs, instances=st.lists(inst, min_size=2, max_size=2)))


CARD_FEATURES = {'filter-exclusive', 'limit', 'count', 'aggregate', 'coalesce', 'for', 'if-else', 'union',
                 'distinct', 'opt-eq', 'empty-set', 'type-intersection', 'backlink', 'link', 'link-computed',
                 'scalar-subquery', 'in', 'exists', 'set-literal', 'linkprop'}


def _run(rec, c):
    case = dict(text=c['q']['text'], instances=c['instances'], features=c['q']['features'])
    viol, info = run_case(case)
    if info['status'] != 'ok':
        rec.evaluations += 1
        rec.skip(info['status'] + ':' + info.get('why', '')[:40])
        return
    feats = set(case['features'])
    tight = any(n <= 2 for n in info['lens'])
    bounded = not (info['card'] == 'MANY' and info['mult'] in ('DUPLICATE', 'UNKNOWN'))
    nontrivial = bool(feats & CARD_FEATURES) and (bounded or tight)
    classes = ['card:' + info['card'], 'mult:' + info['mult']] + \
        ['len:' + ('0' if n == 0 else '1' if n == 1 else '2' if n == 2 else '3+') for n in info['lens']] + \
        [f for f in feats if f in CARD_FEATURES or f.startswith('stmt:')]
    if any(not i['objs'] for i in case['instances']):
        classes.append('empty-database')
    rec.case({'text': case['text'], 'inst': case['instances']}, nontrivial=nontrivial, classes=sorted(set(classes)),
             sample={'text': case['text'][:300], 'reported': [info['card'], info['mult']], 'result_sizes': info['lens']})
    seen = set()
    for sig, detail in viol:
        if sig not in seen:
            seen.add(sig)
            rec.violation(sig, case, detail)


def shard(rec, idx, nshards, seed, tier):
    preload()
    # schema-evolution stage (small and fixed: every setup x every order of its commands)
    import itertools
    k = 0
    for si, (_s, _h, _p, cmds) in enumerate(DDL_SETUPS):
        for order in itertools.permutations(range(len(cmds))):
            k += 1
            if k % nshards != idx:
                continue
            case = dict(ddl=True, setup=si, order=list(order))
            viol, info = run_ddl_case(case)
            rec.evaluations += 1
            rec.classes['ddl-stage:' + info['status']] += 1
            for sig, detail in viol[:1]:
                rec.violation(sig, case, detail)
    n = 400 if tier == 'quick' else 9000
    core.run_given(_strategy(), lambda c: _run(rec, c), seed=seed * 1000 + idx, max_examples=n)


def replay(case):
    preload()
    if case.get('ddl'):
        viol, _ = run_ddl_case(case)
        return '; '.join(f'{s}: {d}' for s, d in viol[:2]) or None
    viol, _ = run_case(case)
    return '; '.join(f'{s}: {d}' for s, d in viol[:2]) or None


def shrink(case, sig):
    def fails(c):
        v, _ = run_case(c)
        return any(s == sig for s, _ in v)

    def simplify(c):
        for k in range(len(c['instances'])):
            if len(c['instances']) > 1:
                yield dict(c, instances=[c['instances'][k]])
        for k, inst in enumerate(c['instances']):
            for sub in core.list_simplify(inst['objs']):
                keep = {o['n'] for o in sub}
                objs = []
                for o in sub:
                    d = {}
                    for kk, v in o['data'].items():
                        if isinstance(v, dict):
                            v = v if v['to'] in keep else None
                        elif isinstance(v, list) and v and isinstance(v[0], dict):
                            v = [x for x in v if x['to'] in keep]
                        d[kk] = v
                    objs.append(dict(o, data=d))
                ni = list(c['instances'])
                ni[k] = dict(objs=objs)
                yield dict(c, instances=ni)
    return core.greedy_shrink(case, fails, simplify, budget_s=60)
