"""C13 — generated SQL is well-scoped, parameter-consistent and deterministic.

Generated: statements from the type-directed query generator (gen/query.py)
over a schema with inheritance (incl. multiple), link properties, computed
links / backlinks, exclusive constraints, aliases, globals (plain, defaulted,
computed) and user functions: SELECT with shapes / filters / order / limit,
FOR, WITH, GROUP, tuples and arrays, INSERT / UPDATE / DELETE (incl. UNLESS
CONFLICT, nested DML in WITH / FOR / shapes), 0-6 named parameters (required
and optional).

Oracle, per accepted statement compiled by the server compiler:
(i)  the pgast tree the server compiler obtained from compile_ir_to_sql_tree
     is run through oracles/pgscope.py (PostgreSQL visibility rules for range
     variables incl. LATERAL, CTE declaration order, output columns of
     sub-selects / CTEs);
(ii) parameters: physical indexes of the reported argument map are unique and
     contiguous from 1, every $N in the tree and in QueryUnit.sql is one of
     them, every $N carries one cast type, query parameters come first in
     in_type_args order and globals follow in QueryUnit.globals order with
     their `present` flags;
(iii) compiling the same source again gives byte-identical sql, descriptors and
     ids; a sample of every shard is recompiled in a second process with a
     different PYTHONHASHSEED and must give the same bytes.
"""
from __future__ import annotations

import hashlib
import json
import os
import pickle
import re
import subprocess
import sys

from vp_harness import core, env
from vp_harness.gen import query as Q

ID = 'C13'
LEVEL = 'exploration'
RULE = (
    'case = one statement. Non-trivial = accepted, and its SQL tree has at least 3 query levels and '
    'either a LATERAL item, a CTE reference, a parameter or a global; distinct by statement text. '
    'Rejected statements are outside the property and counted.')
ASSUMPTIONS = [
    'scope rules are those of oracles/pgscope.py (~200 lines written from the PostgreSQL manual); '
    'unqualified column references and column types are not judged; no PostgreSQL executes the SQL',
    'sources are not normalised (constant extraction needs normalize.rs, which the substrate does not bridge)',
]
MIN_EVALS = {'quick': 2500, 'thorough': 30000}

_S: dict = {}
_CAPTURE: list = []


def preload():
    if _S:
        return _S
    tb = env.load_std()
    import immutables
    from edb import errors
    from edb.schema import schema as s_schema
    from edb.edgeql import parser as qlparser
    from edb.pgsql import compiler as pgcompiler
    qlparser.preload_spec()
    us, refl = env.user_schema_from_sdl(Q.SCHEMA_SDL)
    compiler = env.new_compiler()
    chained = s_schema.ChainedSchema(compiler.state.std_schema, us, s_schema.EMPTY_SCHEMA)
    info = Q.introspect(chained)
    orig = pgcompiler.compile_ir_to_sql_tree

    def capture(*a, **k):
        r = orig(*a, **k)
        _CAPTURE.append(r)
        return r
    pgcompiler.compile_ir_to_sql_tree = capture
    _S.update(tb=tb, errors=errors, s_schema=s_schema, compiler=compiler, us=us, refl=refl,
              info=info, E=immutables.Map())
    return _S


def _compile(text):
    S = preload()
    _CAPTURE.clear()
    units, _ = S['compiler'].compile(
        user_schema=S['us'], global_schema=S['s_schema'].EMPTY_SCHEMA,
        reflection_cache=S['refl'], database_config=S['E'], system_config=S['E'],
        request=env.Req(text))
    return units, list(_CAPTURE)


TOKEN_RE = re.compile(rb'[\s(),]+')
UUID_RE = re.compile(rb'[0-9a-f]{8}-[0-9a-f]{4}-[0-9a-f]{4}-[0-9a-f]{4}-[0-9a-f]{12}')
DUMMY_RE = re.compile(rb'(_dml_dummy SET flag = TRUE WHERE \(id = \(+)\d+')


def fingerprint(units, mask=False):
    """mask=True hides the base number of the constraint-check scan (a known finding:
    clauses.scan_check_ctes draws it with random.randint) so that any *other*
    difference in the same statement is still seen"""
    h = hashlib.sha256()
    for u in units:
        sql = u.sql if isinstance(u.sql, (bytes, bytearray)) else b'\0'.join(u.sql or ())
        if mask:
            sql = DUMMY_RE.sub(rb'\1<N>', sql)
        if mask in (2, 3):
            sql = UUID_RE.sub(b'<UUID>', sql)
        if mask == 3:
            sql = b' '.join(sorted(TOKEN_RE.split(sql)))
        for part in (sql, u.out_type_data or b'', (u.out_type_id or b''), u.in_type_data or b'',
                     (u.in_type_id or b''),
                     repr([(a.name, a.required) for a in (u.in_type_args or []) if a is not None]).encode(),
                     repr(u.globals).encode()):
            if not isinstance(part, (bytes, bytearray)):
                part = bytes(part) if hasattr(part, '__bytes__') else repr(part).encode()
            h.update(hashlib.sha256(part).digest())
    return h.hexdigest()


PARAM_RE = re.compile(rb'\$(\d+)')


def _diff_parts(units, units2):
    out = []
    for u, v in zip(units, units2):
        for name in ('sql', 'out_type_data', 'out_type_id', 'in_type_data', 'in_type_id', 'globals'):
            a, b = getattr(u, name), getattr(v, name)
            if name == 'sql':
                a = DUMMY_RE.sub(rb'\1<N>', a if isinstance(a, (bytes, bytearray)) else b'\0'.join(a or ()))
                b = DUMMY_RE.sub(rb'\1<N>', b if isinstance(b, (bytes, bytearray)) else b'\0'.join(b or ()))
            if repr(a) != repr(b):
                i = next((i for i, (x, y) in enumerate(zip(repr(a), repr(b))) if x != y), 0)
                out.append(f'{name}: ...{repr(a)[max(0, i - 60):i + 60]} vs ...{repr(b)[max(0, i - 60):i + 60]}')
    return '; '.join(out)[:900]


def run_case(case):
    """-> (violations, info)"""
    S = preload()
    from vp_harness.oracles import pgscope
    text = case['text']
    info = dict(status='ok')
    viol = []
    try:
        units, trees = _compile(text)
    except S['errors'].InternalServerError as e:
        # no SQL is emitted: outside the statement ("every SQL statement the compiler emits")
        info['status'] = 'compiler-crash'
        info['why'] = f'InternalServerError: {str(e)[:50]}'
        return [], info
    except S['errors'].EdgeDBError as e:
        info['status'] = 'rejected'
        info['why'] = f'{type(e).__name__}: {str(e)[:60]}'
        return [], info
    except (AssertionError, KeyError, AttributeError, TypeError, ValueError, IndexError, RecursionError) as e:
        info['status'] = 'compiler-crash'
        info['why'] = f'{type(e).__name__}: {str(e)[:60]}'
        return [], info
    stats = dict(colrefs=0, levels=0, lateral=0, cte_refs=0, params=0, globals=0)
    for res in trees:
        errs, st = pgscope.check_tree(res.ast)
        for k, v in st.items():
            stats[k] += v
        for e in errs[:3]:
            viol.append((f'scope:{e[0]}', f'`{text}`: {e[0]} {e[1:]}'))
        # (ii) parameters at the IR->SQL level
        argmap = res.argmap or {}
        idx = sorted(p.index for n_, p in argmap.items() if f'__edb_decoded_{n_}_0__' not in argmap)
        by_index: dict = {}
        for name, p in argmap.items():
            if f'__edb_decoded_{name}_0__' in argmap:
                # a tuple-typed parameter is decoded into several SQL parameters and takes no
                # slot of its own (populate_argmap)
                continue
            by_index.setdefault(p.index, []).append(name)
        dup = {i: n for i, n in by_index.items() if len(n) > 1}
        if dup:
            viol.append(('params:shared-index', f'`{text}`: arguments share a SQL parameter: {dup}'))
        if idx and sorted(set(idx)) != list(range(1, len(set(idx)) + 1)):
            viol.append(('params:not-contiguous', f'`{text}`: physical indexes {idx}'))
        refs = pgscope.param_refs(res.ast)
        stats['params'] += len([n for n, p in argmap.items() if p.logical_index >= 0])
        stats['globals'] += len([n for n, p in argmap.items() if p.logical_index < 0])
        for n, types in refs.items():
            if n not in by_index:
                viol.append(('params:unmapped-ref', f'`{text}`: ${n} is used but the argument map has {sorted(by_index)}'))
            if len(types) > 1:
                viol.append(('params:two-types', f'`{text}`: ${n} is cast to {sorted(types)} ({by_index.get(n)})'))
    # unit-level layout
    for u in units:
        sql = u.sql if isinstance(u.sql, (bytes, bytearray)) else b'\0'.join(u.sql or ())
        used = {int(m) for m in PARAM_RE.findall(sql)}
        args = u.in_type_args or []
        n_args = len(args)
        globs = list(u.globals or [])
        def arg_slots(a):
            sp = getattr(a, 'sub_params', None)
            return len(sp[0]) if sp else 1
        n_arg_slots = sum(arg_slots(a) for a in args if a is not None)
        n_slots = n_arg_slots + sum(2 if has_present else 1 for _g, has_present in globs)
        if any(a is None for a in args):
            viol.append(('params:hole-in-in_type_args', f'`{text}`: {args}'))
        # every slot the unit declares must be mentioned in the SQL text: PostgreSQL derives the
        # number of parameters of the prepared statement from the text, and the server binds one
        # value per declared slot (tuple parameters are decoded into several: skipped)
        if True:
            unmentioned = sorted(set(range(1, n_slots + 1)) - used)
            if unmentioned:
                viol.append(('params:declared-slot-not-in-sql',
                             f'`{text}`: the unit declares {n_args} arguments and globals {globs} = '
                             f'{n_slots} parameter slots, but the SQL never mentions '
                             f'{["$" + str(i) for i in unmentioned]}'))
        if used and max(used) > n_slots:
            viol.append(('params:sql-index-beyond-layout',
                         f'`{text}`: SQL uses ${max(used)} but the unit declares {n_args} arguments and '
                         f'globals {globs} = {n_slots} slots'))
        names = [a.name for a in args if a is not None]
        if len(set(names)) != len(names):
            viol.append(('params:duplicate-name', f'`{text}`: {names}'))
    if trees and units and len(trees) == 1 and len(units) == 1:
        res, u = trees[0], units[0]
        argmap = res.argmap or {}
        args = u.in_type_args or []
        for a_i, a in enumerate(args):
            if a is None or a.name not in argmap:
                continue
            p = argmap[a.name]
            if p.logical_index - 1 != a_i:
                viol.append(('params:order-mismatch',
                             f'`{text}`: in_type_args[{a_i}] = {a.name} but its logical index is {p.logical_index}'))
        pos = len([n for n, p in argmap.items() if p.logical_index >= 0 and True])
        # globals follow the query parameters in QueryUnit.globals order
        phys = max([p.index for p in argmap.values() if p.logical_index >= 0], default=0)
        for gname, has_present in (u.globals or []):
            gp = argmap.get(gname)
            if gp is None:
                continue
            phys += 1
            if gp.index != phys:
                viol.append(('params:global-index', f'`{text}`: global {gname} is ${gp.index}, layout says ${phys}'))
            if has_present:
                phys += 1
                pp = argmap.get(gname + 'present__')
                if pp is None or pp.index != phys:
                    viol.append(('params:global-present-index',
                                 f'`{text}`: present flag of {gname} is ${getattr(pp, "index", None)}, layout says ${phys}'))
    # (iii) same process
    fp1 = fingerprint(units, mask=True)
    raw1 = fingerprint(units)
    for _rep in range(case.get('repeat', 1)):
        try:
            units2, _ = _compile(text)
            fp2 = fingerprint(units2, mask=True)
            if fp1 == fp2 and raw1 != fingerprint(units2):
                viol.append(('nondeterministic:check-scan-random-base',
                             f'`{text}`: two compilations differ only in the random base number of the '
                             f'constraint-check scan (UPDATE _dml_dummy ... WHERE id = <random> + ...)'))
            if fp1 != fp2 and fingerprint(units, mask=2) == fingerprint(units2, mask=2):
                viol.append(('nondeterministic:transient-id-in-sql',
                             f'`{text}`: two compilations differ only in uuid-valued identifiers '
                             f'(ids of transient schema objects used as column names)'))
                break
            if fp1 != fp2 and fingerprint(units, mask=3) == fingerprint(units2, mask=3):
                kind = 'dml' if any(f.startswith('dml-') for f in case.get('features', [])) or \
                    re.search(r'\b(insert|update|delete)\b', text) else 'query'
                viol.append((f'nondeterministic:reordered:{kind}',
                             f'`{text}`: two compilations emit the same SQL tokens in a different order: '
                             f'{_diff_parts(units, units2)}'))
                break
            if fp1 != fp2:
                a = units[0].sql if units else b''
                b = units2[0].sql if units2 else b''
                viol.append(('nondeterministic:same-process',
                             f'`{text}`: two compilations differ: {_diff_parts(units, units2)}'))
                break
        except Exception as e:
            viol.append(('nondeterministic:second-compile-fails', f'`{text}`: {type(e).__name__}: {e}'))
            break
    info.update(stats=stats, fp=fp1, fp_loose=fingerprint(units, mask=2), fp_bag=fingerprint(units, mask=3))
    return viol, info


def _strategy(opts=None):
    S = preload()
    opts = opts or Q.QOpts(dml=True, params=True, globals_=True, funcs=True, aliases=True, group=True)
    return Q.query_strategy(S['info'], opts)


def _run(rec, case, det_pool, order=None):
    if order is not None:
        order.append(case['text'])
    viol, info = run_case(case)
    if info['status'] != 'ok':
        rec.evaluations += 1
        rec.skip(info['status'] + ':' + info.get('why', '')[:50])
        return
    st = info.get('stats', {})
    nontrivial = st.get('levels', 0) >= 3 and (st.get('lateral') or st.get('cte_refs') or st.get('params')
                                               or st.get('globals'))
    classes = list(case.get('features', []))
    for k in ('lateral', 'cte_refs', 'params', 'globals'):
        if st.get(k):
            classes.append('sql:' + k)
    lv = st.get('levels', 0)
    classes.append('sql-levels:' + ('1-2' if lv < 3 else '3-9' if lv < 10 else '10-29' if lv < 30 else '30+'))
    rec.case(case['text'], nontrivial=bool(nontrivial), classes=classes,
             sample={'text': case['text'][:400], 'sql_levels': lv, 'column_refs': st.get('colrefs')})
    rec.extra['column_refs_checked'] = rec.extra.get('column_refs_checked', 0) + st.get('colrefs', 0)
    if 'fp' in info:
        # every compiled text in order: the history of this process (late-recompile stage)
        det_pool.append((case['text'], info['fp'], info['fp_loose'], info['fp_bag'],
                         (len(order) - 1) if (order is not None and
                                              not any(s.startswith('nondeterministic') for s, _ in viol)) else None))
    seen = set()
    for sig, detail in viol:
        if sig not in seen:
            seen.add(sig)
            rec.violation(sig, case, detail)


def shard(rec, idx, nshards, seed, tier):
    preload()
    n = 180 if tier == 'quick' else 3000
    det_pool: list = []
    order: list = []
    core.run_given(_strategy(), lambda c: _run(rec, c, det_pool, order), seed=seed * 1000 + idx, max_examples=n)
    # late recompile: the same process, aged by everything it compiled in between, must still
    # produce the same bytes for a statement it compiled earlier (history independence)
    k = 60 if tier == 'quick' else 400
    hist = list(order)
    for dp in range(min(k, len(det_pool)) - 1, -1, -1):
        text, fp, fpl, fpb, pos = det_pool[dp]
        if pos is None:
            continue
        rec.extra['late_recompiled'] = rec.extra.get('late_recompiled', 0) + 1
        try:
            units, _ = _compile(text)
        except Exception as e:
            rec.violation('nondeterministic:late:second-compile-fails',
                          dict(text=text, features=[], before=hist[:pos], history=hist[pos + 1:]),
                          f'`{text}` compiled at first and fails after {len(hist) - pos - 1} other '
                          f'statements were compiled by the same process: {type(e).__name__}: {e}')
            continue
        if fingerprint(units, mask=True) == fp:
            continue
        if fingerprint(units, mask=2) == fpl:
            sig = 'nondeterministic:transient-id-in-sql'
        elif fingerprint(units, mask=3) == fpb:
            sig = 'nondeterministic:late:reordered'
        else:
            sig = 'nondeterministic:late:differs'
        rec.violation(sig, dict(text=text, features=[], before=hist[:pos], history=hist[pos + 1:]),
                      f'`{text}`: sql/descriptors differ from the first compilation after the same process '
                      f'compiled {len(hist) - pos - 1} other statements')
    # cross-process determinism with another hash seed
    sample = det_pool[:k]
    if sample:
        # two fresh processes that compile the same list in the same order (equal history) and
        # differ only in PYTHONHASHSEED, as two compiler workers of one server do
        first = _other_process([t[0] for t in sample], '54321')
        other = _other_process([t[0] for t in sample], '12345')
        rec.extra['cross_process_recompiled'] = rec.extra.get('cross_process_recompiled', 0) + len(sample)
        for (text, _fp, _fpl, _fpb, _clean), fps1, fps in zip(sample, first, other):
            if not fps1:
                continue
            fp, fp_loose, fp_bag = fps1
            fp2 = fps[0] if fps else None
            if fp2 is not None and fp != fp2 and fp_loose == fps[1]:
                rec.violation('nondeterministic:transient-id-in-sql', dict(text=text, features=[]),
                              f'`{text}`: two processes differ only in uuid-valued identifiers')
                continue
            if fp2 is not None and fp != fp2 and fp_bag == fps[2]:
                kind = 'dml' if re.search(r'\b(insert|update|delete)\b', text) else 'query'
                rec.violation(f'nondeterministic:reordered:{kind}', dict(text=text, features=[], xproc=True),
                              f'`{text}`: two processes with different PYTHONHASHSEED emit the same SQL tokens '
                              f'in a different order')
                continue
            if fp2 is None:
                rec.violation('nondeterministic:other-process-rejects', dict(text=text, features=[]),
                              f'`{text}` compiles here but not in a process with another PYTHONHASHSEED')
            elif fp != fp2:
                rec.violation('nondeterministic:cross-process', dict(text=text, features=[], xproc=True),
                              f'`{text}`: sql/descriptors differ between two processes with different PYTHONHASHSEED')


def _other_process(texts, hashseed='12345'):
    envv = dict(os.environ)
    envv['PYTHONHASHSEED'] = hashseed
    p = subprocess.run([sys.executable, '-m', 'vp_harness.props.c13', '--fingerprints'],
                       input=json.dumps(texts).encode(), stdout=subprocess.PIPE, stderr=subprocess.PIPE,
                       env=envv, cwd=str(core.VERIF))
    if p.returncode != 0:
        raise core.HarnessError('fingerprint subprocess failed: ' + p.stderr.decode()[-2000:])
    return json.loads(p.stdout.decode().strip().splitlines()[-1])


def _late_fails(case):
    """fresh process: compile text, then the history, then text again -> True when they differ"""
    p = subprocess.run([sys.executable, '-m', 'vp_harness.props.c13', '--late'],
                       input=json.dumps(dict(text=case['text'], before=case.get('before', []), history=case['history'])).encode(),
                       stdout=subprocess.PIPE, stderr=subprocess.PIPE, cwd=str(core.VERIF))
    if p.returncode != 0:
        raise core.HarnessError('late subprocess failed: ' + p.stderr.decode()[-2000:])
    return json.loads(p.stdout.decode().strip().splitlines()[-1])


def shrink(case, sig):
    if not case.get('history'):
        return case
    def simplify(c):
        if c.get('before'):
            yield dict(c, before=[])
        for h in core.list_simplify(c['history']):
            yield dict(c, history=h)
        for h in core.list_simplify(c.get('before') or []):
            yield dict(c, before=h)
    return core.greedy_shrink(case, lambda c: bool(_late_fails(c)), simplify, budget_s=240, max_steps=40)


def replay(case):
    preload()
    if case.get('history') is not None:
        r = _late_fails(case)
        return (f'nondeterministic:late: `{case["text"]}` {r}') if r else None
    viol, info = run_case(case)
    viol = [v for v in viol if v[0] not in case.get('ignore_sigs', ())]
    if not viol and case.get('xproc') and info.get('status') == 'ok':
        fp1 = (_other_process([case['text']], '54321')[0] or [None])[0]
        fp2 = (_other_process([case['text']], '12345')[0] or [None])[0]
        if fp2 != fp1:
            return 'nondeterministic:cross-process: fingerprints differ between processes'
    return '; '.join(f'{s}: {d}' for s, d in viol[:2]) or None


if __name__ == '__main__' and '--late' in sys.argv:
    c = json.loads(sys.stdin.read())
    preload()
    for t in c.get('before', []):
        for _k in range(2):
            try:
                _compile(t)
            except Exception:
                break
    u1, _ = _compile(c['text'])
    f1 = fingerprint(u1, mask=True)
    for t in c['history']:
        for _k in range(2):
            try:
                _compile(t)
            except Exception:
                break
    try:
        u2, _ = _compile(c['text'])
        f2 = fingerprint(u2, mask=True)
        print(json.dumps(None if f1 == f2 else 'differs after ' + str(len(c['history'])) + ' statements: '
                         + str(_diff_parts(u1, u2))[:600]))
    except Exception as e:
        print(json.dumps(f'second compile fails: {type(e).__name__}: {e}'))
    sys.exit(0)

if __name__ == '__main__' and '--fingerprints' in sys.argv:
    texts = json.loads(sys.stdin.read())
    preload()
    out = []
    for t in texts:
        try:
            units, _ = _compile(t)
            out.append([fingerprint(units, mask=True), fingerprint(units, mask=2), fingerprint(units, mask=3)])
        except Exception:
            out.append(None)
    print(json.dumps(out))
