"""C19 — configuration commands compose and persist as specified.

Generated: histories of CONFIGURE operations (SET, RESET, object INSERT (+=),
filtered RESET (-=)) at SESSION / CURRENT BRANCH / INSTANCE scope over the
real spec held by the compiler (bool, int, str, enum-like str, real enums,
duration, memory, multi-valued str, object-valued with exclusive fields and
subtypes), valid and invalid values, through two injection paths: Operation
objects applied directly (what the server does with the operations reported by
the backend) and operations carried by units compiled from CONFIGURE text.

Oracle: three-dict reference model (effective = most specific scope that
defines the setting, else default) compared with config.lookup for every
setting after every step; rejected ops change nothing; after every history
from_json(to_json(m)) == m and to_edgeql(m) re-compiled and re-applied gives the
same effective configuration; scalar grids for Duration / ConfigMemory.
"""
from __future__ import annotations

import json

from vp_harness import env
from vp_harness import core

ID = 'C19'
LEVEL = 'exploration'
RULE = (
    'case = history of <=25 ops [kind, path(direct|compiled), scope, setting, value '
    'spec]; checked step by step against a three-scope dict model, then JSON and '
    'CONFIGURE-text round trips. Non-trivial = some setting defined at >=2 scopes at '
    'once, or an object-valued setting gained/lost members, or an invalid op was '
    'rejected in the middle of a history; distinct by history hash. Plus exhaustive '
    'unit x magnitude grids for Duration and ConfigMemory printing/parsing.')
ASSUMPTIONS = [
    'range constraints of settings are enforced by PostgreSQL constraints at execution '
    'time and are out of reach; type and scope errors are checked at compile time',
    'object INSERT / filtered RESET produce no static operations in the compiler: they '
    'are injected as Operation(ADD/REM) objects, as the server does with the JSON the '
    'backend returns',
]
MIN_EVALS = {'quick': 1500, 'thorough': 50000}

_S = {}

SCALAR_SETTINGS = {
    # name: (kind, system)
    'boolprop': 'bool', 'apply_access_policies': 'bool', 'allow_user_specified_id': 'bool',
    '__internal_sess_testvalue': 'int', 'singleprop': 'str',
    'force_database_error': 'str', 'enumprop': 'strenum', 'allow_bare_ddl': 'strenum',
    'durprop': 'duration', 'session_idle_transaction_timeout': 'duration',
    'query_execution_timeout': 'duration', 'memprop': 'memory',
    'multiprop': 'strset', 'cors_allow_origins': 'strset',
    'default_transaction_isolation': 'enum',
    'default_transaction_access_mode': 'enum',
    # instance-only
    'listen_port': 'int', 'http_max_connections': 'int',
    '__internal_testvalue': 'int', 'session_idle_timeout': 'duration',
    'shared_buffers': 'memory', 'query_work_mem': 'memory',
    'listen_addresses': 'strset',
}
OBJECT_SETTINGS = {
    'sysobj': ['cfg::TestInstanceConfig', 'cfg::TestInstanceConfigStatTypes'],
    'sessobj': ['cfg::TestSessionConfig'],
}
ENUMS = {
    'enumprop': ['One', 'Two', 'Three'],
    'allow_bare_ddl': ['AlwaysAllow', 'NeverAllow'],
    'default_transaction_isolation': ['RepeatableRead', 'Serializable'],
    'default_transaction_access_mode': ['ReadOnly', 'ReadWrite'],
}
ENUM_QLTYPE = {
    'enumprop': 'cfg::TestEnum', 'allow_bare_ddl': 'cfg::AllowBareDDL',
    'default_transaction_isolation': 'sys::TransactionIsolation',
    'default_transaction_access_mode': 'sys::TransactionAccessMode',
}
SCOPES = ['SESSION', 'DATABASE', 'INSTANCE']
SCOPE_QL = {'SESSION': 'session', 'DATABASE': 'current branch', 'INSTANCE': 'instance'}
DUR_US = [0, 1, 15000, 1005000, 1500000, 59999999, 3600000000, 3661000001,
          -1, -1500000, -3600000000, 86400000000, 100000, 10, 999999, 60000000]
MEM_B = [0, 1, 1023, 1024, 1536, 1048576, 10485760, 1073741824, 1099511627776,
         1125899906842624, 1025, 3 * 1048576 + 1]
STRS = ['', 'x', 'one two', "it's", 'a\\b', 'q"q', 'line\nbreak', '$$', 'é',
        'Four', 'true', '42']


def _setup():
    if _S:
        return _S
    import immutables
    from edb.schema import schema as s_schema
    from edb.server import config
    from edb.edgeql import qltypes
    from edb.ir import statypes
    from edb import errors
    c = env.new_compiler()
    _S.update(compiler=c, spec=c.state.config_spec, config=config,
              qltypes=qltypes, statypes=statypes, immutables=immutables,
              errors=errors, empty_schema=s_schema.EMPTY_SCHEMA)
    spec = _S['spec']
    for n in list(SCALAR_SETTINGS):
        if n not in spec:
            del SCALAR_SETTINGS[n]
    for n in list(OBJECT_SETTINGS):
        if n not in spec:
            del OBJECT_SETTINGS[n]
    return _S


def preload():
    _setup()


# ---- values --------------------------------------------------------------

def py_value(kind, name, v):
    """value spec -> (python value for Operation, model value, edgeql text)"""
    st = _S['statypes']
    if kind == 'bool':
        b = bool(v % 2)
        return b, b, 'true' if b else 'false'
    if kind == 'int':
        i = [0, 1, 7, 5656, 1024, 100, 12][v % 7]
        return i, i, str(i)
    if kind == 'str':
        s = STRS[v % len(STRS)]
        return s, s, _qlstr(s)
    if kind in ('strenum', 'enum'):
        lab = ENUMS[name][v % len(ENUMS[name])]
        if kind == 'enum':
            return lab, lab, f'<{ENUM_QLTYPE[name]}>{_qlstr(lab)}'
        return lab, lab, f'<{ENUM_QLTYPE[name]}>{_qlstr(lab)}'
    if kind == 'duration':
        us = DUR_US[v % len(DUR_US)]
        d = st.Duration(microseconds=us)
        return d, ('dur', us), f"<duration>'{us} microseconds'"
    if kind == 'memory':
        b = MEM_B[v % len(MEM_B)]
        m = st.ConfigMemory(b)
        return m, ('mem', b), f"<cfg::memory>'{b}B'"
    if kind == 'strset':
        k = v % 5
        items = [['a'], ['a', 'b'], [], ["it's", 'x y'], ['b', 'c', 'd']][k]
        return tuple(items), frozenset(items), '{' + ', '.join(map(_qlstr, items)) + '}' if items else '<str>{}'
    raise AssertionError(kind)


def _qlstr(s):
    return "'" + s.replace('\\', '\\\\').replace("'", "\\'").replace('\n', '\\n') + "'"


def norm(val):
    """real config value -> model value"""
    st = _S['statypes']
    if isinstance(val, st.Duration):
        return ('dur', val.to_microseconds())
    if isinstance(val, st.ConfigMemory):
        return ('mem', val.to_nbytes())
    if isinstance(val, st.EnumScalarType):
        return val.to_str()
    if isinstance(val, (frozenset, set, tuple, list)):
        return frozenset(norm(x) for x in val)
    if hasattr(val, '_tspec'):
        return ('obj', val._tspec.name, tuple(sorted(
            (f, repr(norm(getattr(val, f, None)))) for f in val._tspec.fields)))
    return val


def bad_value(kind, v):
    """a value of the wrong type for the kind: (python value, edgeql text)"""
    table = {
        'bool': [('yes', "'yes'"), (3.5, '3.5')],
        'int': [('abc', "'abc'"), (None, '<str>{}'), (1.5, '1.5')],
        'str': [(42, '42'), (True, 'true')],
        'strenum': [(7, '7')],
        'enum': [('NoSuchLabel', "'NoSuchLabel'"), (5, '5')],
        'duration': [('1 parsec', "<duration>'1 parsec'"), (12.5, '12.5')],
        'memory': [('10XB', "<cfg::memory>'10XB'"), ('ten', "'ten'")],
        'strset': [(5, '5')],
    }[kind]
    return table[v % len(table)]


# ---- the machine -----------------------------------------------------------

def _obj_spec(name, o):
    """o = [type index, name index, extra] -> dict for from_pyvalue + model key"""
    types_ = OBJECT_SETTINGS[name]
    t = types_[o[0] % len(types_)]
    nm = ['a', 'b', 'c'][o[1] % 3]
    d = {'_tname': t, 'name': nm}
    if t.endswith('StatTypes'):
        if o[2] % 3 == 1:
            d['durprop'] = _S['statypes'].Duration(
                microseconds=DUR_US[o[2] % len(DUR_US)]).to_iso8601()
        if o[2] % 3 == 2:
            d['memprop'] = f'{MEM_B[o[2] % len(MEM_B)]}B'
    return d, nm, t


def run_case(case):
    S = _setup()
    config, qltypes, spec = S['config'], S['qltypes'], S['spec']
    Map = S['immutables'].Map
    maps = {s: Map() for s in SCOPES}
    model = {s: {} for s in SCOPES}       # name -> model value
    objmodel = {s: {} for s in SCOPES}    # name -> {objname: type}
    viol = []
    info = dict(steps=0, rejected=0, compiled=0, direct=0, multi_scope=False,
                obj_changes=0, reject_mid=False, kinds=set())

    def bad(sig, detail):
        if not viol:
            viol.append((sig, detail))

    def effective_model(name):
        for s in SCOPES:
            if name in model[s]:
                return ('val', model[s][name])
            if name in objmodel[s]:
                return ('objs', frozenset(objmodel[s][name].items()))
        return ('default',)

    def check_all(step):
        for name in list(SCALAR_SETTINGS) + list(OBJECT_SETTINGS):
            got = config.lookup(name, maps['SESSION'], maps['DATABASE'],
                                maps['INSTANCE'], spec=spec)
            exp = effective_model(name)
            if exp == ('default',):
                if norm(got) != norm(spec[name].default):
                    bad('effective-value:' + _kind_of(name),
                        f'step {step}: {name}: no scope defines it, lookup gives '
                        f'{got!r}, default is {spec[name].default!r}')
            elif exp[0] == 'objs':
                gotk = frozenset((o.name, o._tspec.name) for o in got)
                if gotk != exp[1]:
                    bad('effective-value:object',
                        f'step {step}: {name}: lookup gives {sorted(gotk)!r}, '
                        f'model {sorted(exp[1])!r}')
            elif norm(got) != exp[1]:
                bad('effective-value:' + _kind_of(name),
                    f'step {step}: {name}: lookup gives {got!r} (={norm(got)!r}), '
                    f'model says {exp[1]!r}')
            if viol:
                return
        if len([1 for name in SCALAR_SETTINGS
                if sum(name in model[s] for s in SCOPES) >= 2]) > 0:
            info['multi_scope'] = True

    for step, op in enumerate(case['ops']):
        if viol:
            break
        info['steps'] += 1
        kind_op, path, scope, name, v = op[:5]
        is_obj = name in OBJECT_SETTINGS
        kind = 'object' if is_obj else SCALAR_SETTINGS.get(name)
        if kind is None:
            continue
        info['kinds'].add(kind)
        qscope = qltypes.ConfigScope(scope)
        before = dict(maps)
        invalid = kind_op == 'set_bad'
        ops = None
        expect_reject = invalid
        try:
            if is_obj:
                d, nm, t = _obj_spec(name, v)
                code = config.OpCode.CONFIG_ADD if kind_op == 'add' else config.OpCode.CONFIG_REM
                if kind_op not in ('add', 'rem'):
                    continue
                ops = [config.Operation(code, qscope, name, d)]
                cur = objmodel[scope].get(name, {})
                if kind_op == 'add' and nm in cur:
                    expect_reject = True   # exclusive `name`, across subtypes
                info['direct'] += 1
            elif path == 'compiled':
                info['compiled'] += 1
                if kind_op == 'reset':
                    text = f'configure {SCOPE_QL[scope]} reset {name}'
                elif invalid:
                    text = f'configure {SCOPE_QL[scope]} set {name} := {bad_value(kind, v)[1]}'
                else:
                    text = f'configure {SCOPE_QL[scope]} set {name} := {py_value(kind, name, v)[2]}'
                ops = _compile_ops(text)
                if ops is None:
                    # rejected at compile time: nothing may change (nothing
                    # was applied); scope errors land here too
                    info['rejected'] += 1
                    if step < len(case['ops']) - 1:
                        info['reject_mid'] = True
                    continue
                if invalid:
                    bad('invalid-accepted:compiled:' + kind,
                        f'step {step}: {text!r} was accepted by the compiler')
                    break
            else:
                info['direct'] += 1
                if kind_op == 'reset':
                    ops = [config.Operation(config.OpCode.CONFIG_RESET, qscope, name, None)]
                elif invalid:
                    if kind in ('strenum', 'enum') and isinstance(bad_value(kind, v)[0], str):
                        continue   # label membership is validated upstream of apply()
                    ops = [config.Operation(config.OpCode.CONFIG_SET, qscope, name,
                                            bad_value(kind, v)[0])]
                else:
                    pv = py_value(kind, name, v)[0]
                    if kind == 'duration':
                        pv = pv.to_iso8601() if v % 2 else pv
                        if isinstance(pv, str):
                            # the server receives durations as text
                            pv = f'{DUR_US[v % len(DUR_US)]} microseconds'
                    elif kind == 'memory' and v % 2:
                        pv = f'{MEM_B[v % len(MEM_B)]}B'
                    ops = [config.Operation(config.OpCode.CONFIG_SET, qscope, name, pv)]
            new = maps[scope]
            for o in ops:
                if o.scope != qscope or o.setting_name != name:
                    bad('compiled-op-mismatch', f'step {step}: {op!r} compiled to {o!r}')
                new = o.apply(spec, new)
            if expect_reject:
                bad('invalid-accepted:direct:' + kind,
                    f'step {step}: {op!r} (ops {ops!r}) should have been rejected')
                break
            maps[scope] = new
            # update the model
            if is_obj:
                cur = dict(objmodel[scope].get(name, {}))
                if kind_op == 'add':
                    cur[nm] = t
                    info['obj_changes'] += 1
                else:
                    if cur.get(nm) == t:
                        del cur[nm]
                        info['obj_changes'] += 1
                objmodel[scope][name] = cur
            elif kind_op == 'reset':
                model[scope].pop(name, None)
            else:
                model[scope][name] = py_value(kind, name, v)[1]
        except (S['errors'].EdgeDBError, ValueError, TypeError) as e:
            info['rejected'] += 1
            if step < len(case['ops']) - 1:
                info['reject_mid'] = True
            if not expect_reject and not (is_obj and kind_op == 'rem'):
                bad('valid-rejected:' + kind,
                    f'step {step}: {op!r} was rejected: {type(e).__name__}: {e}')
                break
            if maps != before:
                bad('rejected-op-changed-state', f'step {step}: {op!r}')
                break
        check_all(step)

    # round trips at the end of the history
    if not viol:
        for scope in SCOPES:
            m = maps[scope]
            try:
                js = config.to_json(spec, m)
                back = config.from_json(spec, js)
            except Exception as e:
                bad('json-roundtrip-raised',
                    f'{scope}: to_json/from_json raised {type(e).__name__}: {e}; map={dict(m)!r}')
                break
            if _normmap(back) != _normmap(m):
                bad('json-roundtrip-differs',
                    f'{scope}: {_normmap(m)!r} -> {js} -> {_normmap(back)!r}')
                break
        if not viol and case.get('ql_roundtrip', True):
            for scope in ('DATABASE', 'INSTANCE'):
                m = maps[scope]
                if not len(m):
                    continue
                try:
                    text = config.to_edgeql(spec, m, with_secrets=True)
                except Exception as e:
                    bad('to-edgeql-raised:' + type(e).__name__,
                        f'{scope}: to_edgeql raised {type(e).__name__}: {e}; '
                        f'map={_normmap(m)!r}')
                    break
                re = Map()
                okay = True
                for stmt in _split_statements(text):
                    if 'insert' in stmt.lower().split('\n', 2)[1:2].__repr__().lower() \
                            or stmt.strip().lower().split()[2:3] == ['insert'] \
                            or '\ninsert' in stmt.lower():
                        # object inserts have no static ops: they must at
                        # least be valid input
                        if not _compiles(stmt):
                            bad('to-edgeql-invalid-insert',
                                f'{scope}: DESCRIBE text does not compile: {stmt!r}')
                            okay = False
                            break
                        continue
                    ops = _compile_ops(stmt)
                    if ops is None:
                        bad('to-edgeql-invalid',
                            f'{scope}: DESCRIBE text does not compile: {stmt!r}')
                        okay = False
                        break
                    for o in ops:
                        re = o.apply(spec, re)
                if not okay:
                    break
                for name in SCALAR_SETTINGS:
                    if spec[name].protected or (name in m) != (name in re) and not (
                            name in m and spec[name].secret):
                        if name in m and not spec[name].protected:
                            bad('to-edgeql-lost-setting',
                                f'{scope}: {name} missing after replaying {text!r}')
                        continue
                    if name in m and norm(m[name].value) != norm(re[name].value):
                        bad('to-edgeql-value-differs:' + _kind_of(name),
                            f'{scope}: {name}: {m[name].value!r} -> {text!r} -> '
                            f'{re[name].value!r}')
                if viol:
                    break
    info['kinds'] = sorted(info['kinds'])
    return viol, info


def _kind_of(name):
    return SCALAR_SETTINGS.get(name, 'object')


def _normmap(m):
    return {k: (norm(v.value), v.source, str(v.scope)) for k, v in m.items()}


def _split_statements(text):
    out = []
    cur = []
    for line in text.split('\n'):
        cur.append(line)
        if line.rstrip().endswith(';'):
            out.append('\n'.join(cur))
            cur = []
    if any(x.strip() for x in cur):
        out.append('\n'.join(cur))
    return [s.rstrip().rstrip(';') for s in out if s.strip()]


_TESTMODE = {}


def _session_config():
    if 'cfg' not in _TESTMODE:
        S = _S
        config, qltypes = S['config'], S['qltypes']
        m = S['immutables'].Map()
        m = config.Operation(config.OpCode.CONFIG_SET, qltypes.ConfigScope.SESSION,
                             '__internal_testmode', True).apply(S['spec'], m)
        _TESTMODE['cfg'] = m
    return _TESTMODE['cfg']


def _compile_units(text):
    S = _S
    E = S['immutables'].Map()
    units, _ = S['compiler'].compile(
        user_schema=S['empty_schema'], global_schema=S['empty_schema'],
        reflection_cache=E, database_config=E, system_config=E,
        request=env.Req(text, session_config=_session_config()))
    return units


def _compile_ops(text):
    try:
        units = _compile_units(text)
    except _S['errors'].EdgeDBError:
        return None
    ops = []
    for u in units:
        ops.extend(u.config_ops)
    return ops


def _compiles(text):
    try:
        _compile_units(text)
        return True
    except _S['errors'].EdgeDBError:
        return False


def _strategy():
    from hypothesis import strategies as st
    _setup()
    scalars = sorted(SCALAR_SETTINGS)
    objs = sorted(OBJECT_SETTINGS)
    spec = _S['spec']

    @st.composite
    def cases(draw):
        n = draw(st.integers(1, 25))
        focus = draw(st.lists(st.sampled_from(scalars), min_size=1, max_size=4))
        ops = []
        for _ in range(n):
            r = draw(st.integers(0, 19))
            if r < 3 and objs:
                name = draw(st.sampled_from(objs))
                scope = 'INSTANCE' if spec[name].system else draw(st.sampled_from(SCOPES))
                ops.append([draw(st.sampled_from(['add', 'add', 'rem'])), 'direct',
                            scope, name,
                            [draw(st.integers(0, 1)), draw(st.integers(0, 2)),
                             draw(st.integers(0, 20))]])
                continue
            name = draw(st.sampled_from(focus)) if r < 14 else draw(st.sampled_from(scalars))
            if spec[name].system and draw(st.integers(0, 9)) > 0:
                scope = 'INSTANCE'
            else:
                scope = draw(st.sampled_from(SCOPES))
            kind_op = draw(st.sampled_from(['set'] * 6 + ['reset'] * 2 + ['set_bad'] * 2))
            path = draw(st.sampled_from(['direct'] * 4 + ['compiled']))
            if path == 'direct' and spec[name].system:
                # the server only ever sees instance-scoped operations for
                # system settings (the compiler rejects the others)
                scope = 'INSTANCE'
            ops.append([kind_op, path, scope, name, draw(st.integers(0, 30))])
        return dict(ops=ops, ql_roundtrip=draw(st.integers(0, 3)) == 0)
    return cases()


def _run(rec, case):
    viol, info = run_case(case)
    cls = ['kind:' + k for k in info['kinds']]
    if info['multi_scope']:
        cls.append('setting-at-2+-scopes')
    if info['obj_changes']:
        cls.append('object-set-changed')
    if info['rejected']:
        cls.append('has-rejected-op')
    if info['compiled']:
        cls.append('has-compiled-op')
    if case.get('ql_roundtrip'):
        cls.append('edgeql-roundtrip')
    rec.case(case, nontrivial=bool(info['multi_scope'] or info['obj_changes']
                                   or info['reject_mid']),
             classes=cls, sample=case['ops'][:8])
    rec.extra['steps'] = rec.extra.get('steps', 0) + info['steps']
    for sig, detail in viol[:1]:
        rec.violation(sig, case, detail)


def check_scalars(rec, idx, nshards):
    st = _S['statypes']
    k = 0
    units_d = [(3600_000_000, 'hours'), (60_000_000, 'minutes'), (1_000_000, 'seconds'),
               (1000, 'milliseconds'), (1, 'microseconds')]
    mags = [0, 1, 5, 15, 59, 60, 100, 999, 1000, 1005, 123456, 999999, 1000000]
    for sign in (1, -1):
        for mult, uname in units_d:
            for m in mags:
                for extra in (0, 1, 15000, 1005000):
                    k += 1
                    if k % nshards != idx:
                        continue
                    us = sign * (m * mult + extra)
                    case = {'duration_us': us}
                    v = _check_duration(us)
                    txt = f'{sign * m} {uname}' + (f' {sign * extra} microseconds' if extra and uname != 'microseconds' else '')
                    if not v and (uname != 'microseconds' or not extra):
                        try:
                            d = st.Duration(txt)
                            exp = sign * m * mult + (sign * extra if extra and uname != 'microseconds' else 0)
                            if d.to_microseconds() != exp:
                                v = ('duration-parse', f'Duration({txt!r}) = {d.to_microseconds()}us, expected {exp}us')
                        except Exception as e:
                            v = ('duration-parse', f'Duration({txt!r}) raised {e!r}')
                    rec.evaluations += 1
                    rec.nontrivial_enum += 1
                    if v:
                        rec.violation(v[0], case, v[1])
    units_m = [('B', 1), ('KiB', 1024), ('MiB', 1024 ** 2), ('GiB', 1024 ** 3),
               ('TiB', 1024 ** 4), ('PiB', 1024 ** 5)]
    for uname, mult in units_m:
        for m in [0, 1, 2, 1023, 1024, 1025, 1536, 4096, 1000, 999999]:
            k += 1
            if k % nshards != idx:
                continue
            rec.evaluations += 1
            rec.nontrivial_enum += 1
            case = {'memory': f'{m}{uname}'}
            v = _check_memory(m, uname, mult)
            if v:
                rec.violation(v[0], case, v[1])
    rec.extra.setdefault('exhaustive_spaces', {})['duration/memory unit x magnitude grid'] = k


def _check_duration(us):
    st = _S['statypes']
    d = st.Duration(microseconds=us)
    iso = d.to_iso8601()
    try:
        back = st.Duration.from_iso8601(iso)
    except Exception as e:
        return ('duration-iso-roundtrip', f'{us}us -> {iso!r} -> {e!r}')
    if back.to_microseconds() != us:
        return ('duration-iso-roundtrip', f'{us}us -> {iso!r} -> {back.to_microseconds()}us')
    if d.to_json() != iso:
        return ('duration-json', f'to_json {d.to_json()!r} != to_iso8601 {iso!r}')
    try:
        b2 = st.Duration(iso)
    except Exception as e:
        return ('duration-iso-roundtrip', f'Duration({iso!r}) raised {e!r}')
    if b2.to_microseconds() != us:
        return ('duration-iso-roundtrip', f'Duration({iso!r}) = {b2.to_microseconds()}us != {us}us')
    return None


def _check_memory(m, uname, mult):
    st = _S['statypes']
    txt = f'{m}{uname}'
    try:
        v = st.ConfigMemory(txt)
    except Exception as e:
        return ('memory-parse', f'ConfigMemory({txt!r}) raised {e!r}')
    if v.to_nbytes() != m * mult:
        return ('memory-parse', f'ConfigMemory({txt!r}) = {v.to_nbytes()} != {m * mult}')
    s = v.to_str()
    try:
        b = st.ConfigMemory(s)
    except Exception as e:
        return ('memory-roundtrip', f'{txt} -> {s!r} -> {e!r}')
    if b.to_nbytes() != m * mult or v.to_json() != s:
        return ('memory-roundtrip', f'{txt} -> {s!r} -> {b.to_nbytes()}')
    return None


def shard(rec, idx, nshards, seed, tier):
    _setup()
    check_scalars(rec, idx, nshards)
    n = 100 if tier == 'quick' else 8000
    core.run_given(_strategy(), lambda c: _run(rec, c),
                   seed=seed * 1000 + idx, max_examples=n)


def replay(case):
    _setup()
    if 'duration_us' in case:
        v = _check_duration(case['duration_us'])
        return f'{v[0]}: {v[1]}' if v else None
    if 'memory' in case:
        import re
        m = re.match(r'(\d+)(\w+)', case['memory'])
        mult = {'B': 1, 'KiB': 1024, 'MiB': 1024 ** 2, 'GiB': 1024 ** 3,
                'TiB': 1024 ** 4, 'PiB': 1024 ** 5}[m.group(2)]
        v = _check_memory(int(m.group(1)), m.group(2), mult)
        return f'{v[0]}: {v[1]}' if v else None
    viol, _ = run_case(case)
    return '; '.join(f'{s}: {d}' for s, d in viol[:2]) or None


def shrink(case, sig):
    if 'ops' not in case:
        return case

    def fails(c):
        v, _ = run_case(c)
        return any(s == sig for s, _ in v)

    def simplify(c):
        for sub in core.list_simplify(c['ops']):
            yield dict(c, ops=sub)
        for i, op in enumerate(c['ops']):
            if op[1] == 'compiled':
                yield dict(c, ops=c['ops'][:i] + [[op[0], 'direct'] + op[2:]] + c['ops'][i + 1:])
    c = dict(case, ql_roundtrip=True) if sig.startswith('to-edgeql') else case
    return core.greedy_shrink(c, fails, simplify, budget_s=60)
