"""C08 — declared capabilities cover what a statement does.

Generated: (1) a prelude of 0-4 function DDL commands (create / alter body /
alter volatility / reset volatility) whose bodies put DML at top level, in
WITH, in FOR, inside an aggregate, behind another modifying function, in the
WITH block of a GROUP; (2) statements from the type-directed query generator
with INSERT / UPDATE / DELETE and calls to modifying functions drawn into every
nesting context (top level, subquery, WITH, FOR body, shape element, UNLESS
CONFLICT ELSE, function argument, filter), plus call-site templates for the
prelude functions; (3) one statement of every other kind (DDL, migration,
transaction control, savepoints, SET MODULE / ALIAS, CONFIGURE SESSION /
CURRENT BRANCH / INSTANCE, SET GLOBAL, DESCRIBE, ANALYZE); (4) scripts.

Oracle: a syntactic ground truth computed from the *source* AST, never from
the compiler: MODIFICATIONS is needed iff an Insert/Update/Delete node occurs
anywhere in the statement or a called function is one whose current body (as
accepted DDL text, transitively) contains one; DDL / TRANSACTION /
SESSION_CONFIG / PERSISTENT_CONFIG by statement class.  needs must be a subset
of QueryUnit.capabilities and of QueryUnitGroup.capabilities.  Converse: a
unit without MODIFICATIONS contains no INSERT/UPDATE/DELETE on a user table in
its SQL.
"""
from __future__ import annotations

import pickle
import re

from vp_harness import core, env
from vp_harness.gen import query as Q

ID = 'C08'
LEVEL = 'exploration'
RULE = (
    'case = (function prelude, statement or script). Non-trivial = the statement needs a capability '
    'and, for MODIFICATIONS, the write is nested at least two contexts deep (e.g. with/for/subquery/'
    'shape/filter/else) or sits behind a user function; distinct by (prelude, statement text). '
    'Statements the compiler rejects are outside the property and counted.')
ASSUMPTIONS = [
    'ground truth is syntactic: a statement "can modify" iff its source AST contains DML or calls a '
    'function whose accepted body does (transitively); dead code (if false ...) counts as can-modify',
    'the converse direction is checked on SQL text: no INSERT INTO / UPDATE / DELETE FROM on edgedbpub tables '
    'in units without MODIFICATIONS',
]
MIN_EVALS = {'quick': 1500, 'thorough': 60000}

_S: dict = {}


def preload():
    if _S:
        return _S
    tb = env.load_std()
    import immutables
    from edb import errors
    from edb.schema import schema as s_schema
    from edb.edgeql import ast as qlast, parser as qlparser
    from edb.server.compiler import enums
    qlparser.preload_spec()
    us, refl = env.user_schema_from_sdl(Q.SCHEMA_SDL)
    compiler = env.new_compiler()
    chained = s_schema.ChainedSchema(compiler.state.std_schema, us, s_schema.EMPTY_SCHEMA)
    info = Q.introspect(chained)
    _S.update(tb=tb, errors=errors, s_schema=s_schema, qlast=qlast, qlparser=qlparser,
              Cap=enums.Capability, compiler=compiler, us=us, refl=refl, info=info,
              E=immutables.Map())
    return _S


WRITE_RE = re.compile(
    rb'\b(INSERT\s+INTO|UPDATE(\s+ONLY)?|DELETE\s+FROM(\s+ONLY)?)\s+"?edgedbpub"?\s*\.', re.I)

# ----------------------------------------------------------------------
# function prelude

FN_BODIES = [
    # (signature, return, body, modifies-by-own-syntax, callees)
    ('(x: int64)', 'int64', 'x + 1', False),
    ('(b: str)', 'Note', 'insert Note { body := b }', True),
    ('()', 'set of Card', 'update Card set { cost := .cost + 1 }', True),
    ('()', 'int64', 'count((delete Note))', True),
    ('()', 'int64', "with d := (insert Note { body := 'w' }) select 1", True),
    ('()', 'set of Note', 'for i in {1, 2} union (insert Note { body := <str>i })', True),
    ('(b: str)', 'Note', 'mk_note(b)', 'mk_note'),
    ('()', 'set of Card', 'bump_all()', 'bump_all'),
    ('()', 'int64', "with d := (insert Note { body := 'g' }) select count((group Card by .cost))", True),
    ('()', 'int64', "count((with d := (insert Note { body := 'g2' }) group Card by .cost))", True),
    ('()', 'int64', "count((with d := bump_all() group Card by .cost))", 'bump_all'),
    ('()', 'int64', 'count(User)', False),
    ('(b: str)', 'str', "b ++ '!'", False),
    ('()', 'set of Note', "(select (insert Note { body := 'n' }))", True),
    ('()', 'int64', 'count((for u in User union (update Card filter .name = u.name set { cost := 0 })))', True),
]
CALL_ARGS = {'(x: int64)': '(1)', '(b: str)': "('t')", '()': '()'}
CALL_SITES = [
    'select {call}',
    'with a := {call} select 1',
    'with a := (select {call}) select count(a)',
    'for i in {{1, 2}} union ({call})',
    'select count({call})',
    'select ({call}, 1)',
    'select (select {call})',
    'select exists ({call})',
    'select 1 if exists ({call}) else 2',
    'select {{1, 2}} filter exists ({call})',
    'select User {{ name }} filter exists ({call})',
    "insert Note {{ body := 'w' ++ <str>count({call}) }}",
    'select [count({call})]',
    'analyze select {call}',
    'select (for j in {{1}} union (with b := {call} select count(b)))',
]


DML_EXPRS = [
    "(insert Note {{ body := 'd{n}' }})",
    '(update Card set {{ cost := .cost + {n} }})',
    '(delete Note)',
    "(delete Note filter .body = 'd{n}')",
    "(update User filter .name = 'u{n}' set {{ age := {n} }})",
    "(insert Award {{ name := 'aw{n}' }})",
    "(insert User {{ name := 'nu{n}', email := 'e{n}' }} unless conflict on .email)",
    "(insert User {{ name := 'nv{n}', email := 'e{n}' }} unless conflict on .email else (select User))",
    "(for z in {{1, 2}} union (insert Note {{ body := <str>z }}))",
    "(with q := (delete Note) select q)",
]
DML_SITES = CALL_SITES + [
    'select {call} {{ id }}',
    'select assert_single({call})',
    'select array_agg({call})',
    "select (with x := {call}, y := {call} select (count(x), count(y)))",
    "insert Note {{ body := 'x', about := (select {call} limit 1) }}",
    "update Note set {{ about := (select {call} limit 1) }}",
    "update User set {{ deck += {call} }}",
    "select User {{ name, n := count({call}) }}",
    "select (select User {{ name }} filter exists ({call}))",
    "with f := (for k in {{1}} union ({call})) select count(f)",
    "select {call} union {call}",
    "with x := {call} group Card by .cost",
    "select count((with x := {call} group Card by .cost))",
    "with x := {call}, g := (group Card by .cost) select count(g)",
    "select ({call}) ?? ({call})",
    "select (count({call}), (select count((with w := {call} select w))))",
    "insert User {{ name := 'cu', email := 'ce' }} unless conflict on .email else (update User set {{ age := count({call}) }})",
]


def fn_modifies(fns, name, seen=()):
    f = fns.get(name)
    if f is None:
        return name in ('mk_note', 'bump_all')
    m = f['mod']
    if m is True or m is False:
        return m
    if m in seen:
        return False
    return fn_modifies(fns, m, seen + (name,))


# ----------------------------------------------------------------------
# ground truth from the source AST

def ast_needs(text, fns):
    """-> list (one per statement) of dict(mod=bool, klass=str)"""
    S = preload()
    qlast = S['qlast']
    stmts = S['qlparser'].parse_block(text)
    out = []
    for st in stmts:
        found = []

        def visit(n):
            if isinstance(n, (qlast.InsertQuery, qlast.UpdateQuery, qlast.DeleteQuery)):
                found.append('dml')
            if isinstance(n, qlast.FunctionCall):
                fname = n.func if isinstance(n.func, str) else n.func[-1]
                if fn_modifies(fns, fname):
                    found.append('fn:' + fname)
        _walk(st, visit)
        if isinstance(st, qlast.DDLCommand):
            klass = 'DDL'
        elif isinstance(st, qlast.Transaction):
            klass = 'TRANSACTION'
        elif isinstance(st, qlast.SessionCommand):
            klass = 'SESSION_CONFIG'
        elif isinstance(st, qlast.ConfigOp):
            scope = st.scope
            from edb.edgeql import qltypes
            if scope in (qltypes.ConfigScope.SESSION, qltypes.ConfigScope.GLOBAL):
                klass = 'SESSION_CONFIG'
            else:
                klass = 'PERSISTENT_CONFIG'
        else:
            klass = ''
        # DDL bodies contain DML syntactically (function bodies) without executing it
        mod = bool(found) and klass != 'DDL'
        out.append(dict(mod=mod, klass=klass, why=sorted(set(found))))
    return out


def _walk(node, fn):
    from edb.common import ast as cast
    seen = set()
    stack = [node]
    while stack:
        n = stack.pop()
        if isinstance(n, cast.AST):
            if id(n) in seen:
                continue
            seen.add(id(n))
            fn(n)
            for f, v in cast.iter_fields(n, include_meta=False):
                stack.append(v)
        elif isinstance(n, (list, tuple, set, frozenset)):
            stack.extend(n)
        elif isinstance(n, dict):
            stack.extend(n.values())


# ----------------------------------------------------------------------

def _compile(text, us, refl, state=None, txid=None):
    S = preload()
    if state is not None:
        return S['compiler'].compile_in_tx(state=state, txid=txid, request=env.Req(text))
    return S['compiler'].compile(
        user_schema=us, global_schema=S['s_schema'].EMPTY_SCHEMA, reflection_cache=refl,
        database_config=S['E'], system_config=S['E'], request=env.Req(text))


def run_case(case):
    """-> (violations, info)"""
    S = preload()
    Cap = S['Cap']
    us, refl = S['us'], S['refl']
    fns: dict = {}
    info = dict(status='ok', prelude_ok=0, prelude_rejected=0, checked=0, rejected=0, needs=[])
    viol = []
    for kind, name, text, meta in case.get('prelude', []):
        try:
            units, _ = _compile(text, us, refl)
        except S['errors'].InternalServerError as e:
            viol.append(('internal-error:prelude', f'{text}: {e}'))
            return viol, info
        except S['errors'].EdgeDBError:
            info['prelude_rejected'] += 1
            continue
        info['prelude_ok'] += 1
        u = units[0]
        if u.user_schema is not None:
            us = pickle.loads(u.user_schema)
            if u.cached_reflection is not None:
                refl = pickle.loads(u.cached_reflection)
        if not (u.capabilities & Cap.DDL):
            viol.append(('missing:DDL:function-ddl', f'`{text}` compiled without the DDL capability'))
        if kind in ('create', 'body'):
            fns[name] = dict(mod=meta['mod'], sig=meta['sig'])
        elif kind == 'drop':
            fns.pop(name, None)
        # volatility changes never alter what the body does
    for st in case['stmts']:
        text = st['text']
        tx = st.get('in_tx')
        try:
            if tx is not None:
                units0, state = _compile('start transaction', us, refl)
                txid = units0[0].tx_id
                for pre in tx:
                    _, state = _compile(pre, us, refl, state, txid)
                units, state = _compile(text, us, refl, state, txid)
            else:
                units, _ = _compile(text, us, refl)
        except S['errors'].InternalServerError as e:
            viol.append(('internal-error', f'{text}: {e}'))
            continue
        except S['errors'].EdgeDBError as e:
            info['rejected'] += 1
            info.setdefault('reject_reasons', []).append(f'{type(e).__name__}: {str(e)[:60]}')
            continue
        except (KeyError, AssertionError, AttributeError, TypeError, ValueError, IndexError) as e:
            # the compiler crashed (the client would get an InternalServerError): no unit,
            # nothing to judge for this property; counted
            info['rejected'] += 1
            info.setdefault('reject_reasons', []).append(f'CRASH {type(e).__name__}: {str(e)[:60]}')
            continue
        try:
            needs = ast_needs(text, fns)
        except S['errors'].EdgeDBError:
            info['rejected'] += 1
            continue
        if len(needs) != len(units):
            info['rejected'] += 1
            continue
        info['checked'] += 1
        group_caps = units.capabilities
        for i, (need, u) in enumerate(zip(needs, units)):
            caps = u.capabilities
            want = Cap(0)
            if need['mod']:
                want |= Cap.MODIFICATIONS
            if need['klass']:
                want |= getattr(Cap, need['klass'])
            info['needs'].append((need['klass'] or ('MODIFICATIONS' if need['mod'] else '-')))
            missing = want & ~caps
            ctxs = ','.join(sorted({p.split('/', 1)[1] if '/' in p else p for p in st.get('dml_paths', [])}))[:80]
            if missing:
                viol.append((f'missing:{_capname(missing)}:{_sigctx(st, need)}',
                             f'statement {i} of `{text}` needs {_capname(want)} '
                             f'(ground truth: {need["why"] or need["klass"]}; nesting: {ctxs}) '
                             f'but the unit has capabilities {_capname(caps)}'))
            gm = want & ~group_caps
            if gm:
                viol.append((f'group-missing:{_capname(gm)}',
                             f'`{text}`: unit {i} needs {_capname(want)} but the unit group reports '
                             f'{_capname(group_caps)}'))
            if not (caps & Cap.MODIFICATIONS):
                sqls = u.sql if isinstance(u.sql, (bytes, bytearray)) else b''.join(u.sql or ())
                m = WRITE_RE.search(sqls)
                if m:
                    viol.append((f'unflagged-write-in-sql:{_sigctx(st, need)}',
                                 f'`{text}`: unit {i} has no MODIFICATIONS capability ({_capname(caps)}) but '
                                 f'its SQL contains `{sqls[m.start():m.start() + 60].decode(errors="replace")}`'))
    return viol, info


def _capname(c):
    S = preload()
    names = [m.name for m in S['Cap'] if m.value and (m.value & (m.value - 1)) == 0 and (c & m)]
    return '|'.join(names) or 'NONE'


def _sigctx(st, need):
    """root-cause signature part: the innermost nesting context of the write / the function"""
    fn = [w for w in need['why'] if w.startswith('fn:')]
    if fn and 'dml' not in need['why']:
        return 'via-function:' + (st.get('fnbody') or fn[0])
    paths = st.get('dml_paths') or []
    if paths:
        p = sorted(paths)[0].split('/')
        return 'ctx:' + '/'.join(p[-3:])
    return st.get('site', 'other')


# ----------------------------------------------------------------------

OTHER = [
    # (text, in_tx prelude or None)
    ('create type Foo0', None),
    ('alter type Note create property extra -> str', None),
    ('drop type Event', None),
    ('create alias AA := (select Note)', None),
    ('create function zz(a: int64) -> int64 using (a)', None),
    ('create global gg -> str', None),
    ('create migration { create type default::ZZ; }', None),
    ('start migration to { module default {} }', None),
    ('start transaction', None),
    ('rollback', None),
    ('commit', []),
    ('declare savepoint s', []),
    ('release savepoint s', ['declare savepoint s']),
    ('rollback to savepoint s', ['declare savepoint s']),
    ('set module std', None),
    ('set alias foo as module std', None),
    ('reset alias foo', ['set alias foo as module std']),
    ('reset module', None),
    ('reset alias *', None),
    ('configure session set allow_user_specified_id := true', None),
    ('configure session reset allow_user_specified_id', None),
    ("set global cur_name := 'x'", None),
    ('reset global cur_name', None),
    ('configure current branch set allow_user_specified_id := true', None),
    ('configure current branch reset allow_user_specified_id', None),
    ("configure instance set session_idle_timeout := <duration>'10s'", None),
    ('configure instance reset session_idle_timeout', None),
    ('describe schema as sdl', None),
    ('describe type User', None),
    ('analyze select User', None),
    ("analyze insert Note { body := 'a' }", None),
    ("analyze (with x := (insert Note { body := 'a' }) select 1)", None),
]


def _strategy():
    from hypothesis import strategies as st
    S = preload()
    opts = Q.QOpts(dml=True, params=True, globals_=True, funcs=True, aliases=True, group=True)
    qs = Q.query_strategy(S['info'], opts)

    @st.composite
    def cases(draw):
        mode = draw(st.integers(0, 19))
        prelude = []
        fnames = {}
        if mode >= 15:
            n = draw(st.integers(1, 3))
            for k in range(n):
                nm = f'f{k}'
                sig, ret, body, mod = FN_BODIES[draw(st.integers(0, len(FN_BODIES) - 1))]
                prelude.append(['create', nm, f'create function {nm}{sig} -> {ret} using ({body})',
                                dict(mod=mod, sig=sig, body=body)])
                fnames[nm] = dict(sig=sig, body=body)
                r = draw(st.integers(0, 5))
                if r == 0:
                    prelude.append(['vol', nm, f"alter function {nm}{sig} set volatility := "
                                    f"'{draw(st.sampled_from(['Volatile', 'Stable', 'Immutable']))}'", {}])
                elif r == 1:
                    prelude.append(['vol', nm, f'alter function {nm}{sig} reset volatility', {}])
                elif r == 2:
                    cands = [b for b in FN_BODIES if b[0] == sig and b[1] == ret and b[2] != body]
                    if cands:
                        _, _, body2, mod2 = cands[draw(st.integers(0, len(cands) - 1))]
                        prelude.append(['body', nm, f'alter function {nm}{sig} using ({body2})',
                                        dict(mod=mod2, sig=sig, body=body2)])
                        fnames[nm] = dict(sig=sig, body=body2)
                        if draw(st.booleans()):
                            prelude.append(['vol', nm, f'alter function {nm}{sig} reset volatility', {}])
        stmts = []
        if mode == 0:
            text, in_tx = OTHER[draw(st.integers(0, len(OTHER) - 1))]
            stmts.append(dict(text=text, in_tx=in_tx, site='other-kind'))
        elif mode <= 2:
            # script
            parts = [draw(qs) for _ in range(draw(st.integers(2, 3)))]
            if draw(st.booleans()):
                parts.append(dict(text=OTHER[draw(st.integers(14, 22))][0], dml_paths=[], features=[]))
            stmts.append(dict(text='; '.join(p['text'] for p in parts) + ';',
                              dml_paths=[x for p in parts for x in p['dml_paths']],
                              features=sorted({f for p in parts for f in p['features']}), site='script'))
        elif mode <= 6:
            site = DML_SITES[draw(st.integers(0, len(DML_SITES) - 1))]
            e1 = DML_EXPRS[draw(st.integers(0, len(DML_EXPRS) - 1))].format(n=draw(st.integers(0, 9)))
            text = site.replace('{call}', e1).replace('{{', '{').replace('}}', '}')
            stmts.append(dict(text=text, site='dml:' + site[:24], dml_paths=['top/site/sub/dml']))
        elif mode >= 15:
            for _ in range(draw(st.integers(1, 3))):
                nm = draw(st.sampled_from(sorted(fnames)))
                site = CALL_SITES[draw(st.integers(0, len(CALL_SITES) - 1))]
                call = nm + CALL_ARGS[fnames[nm]['sig']]
                stmts.append(dict(text=site.format(call=call), site='call:' + site[:24],
                                  fnbody=fnames[nm]['body'][:40], dml_paths=['fn/function/x'] * 1))
        else:
            q = draw(qs)
            if draw(st.integers(0, 9)) == 0:
                q = dict(q, text='analyze ' + q['text'])
            stmts.append(dict(text=q['text'], dml_paths=q['dml_paths'], features=q['features'], site='query'))
        return dict(prelude=prelude, stmts=stmts)
    return cases()


def _run(rec, case):
    viol, info = run_case(case)
    if info['checked'] == 0:
        rec.evaluations += 1
        rec.skip('rejected-by-compiler')
        for r in info.get('reject_reasons', [])[:1]:
            rec.skip('reject:' + r[:50])
        return
    deep = any(len([x for x in p.split('/') if x not in ('top',)]) >= 3 or 'function' in p
               for s in case['stmts'] for p in s.get('dml_paths', []))
    needs = set(info['needs']) - {'-'}
    classes = ['needs:' + n for n in sorted(needs)] or ['needs:none']
    for s in case['stmts']:
        classes.append('site:' + s.get('site', '?')[:30])
        for p in s.get('dml_paths', []):
            parts = p.split('/')
            classes.append('dml-ctx:' + '/'.join(parts[1:-1][-2:]) if len(parts) > 2 else 'dml-ctx:top')
    if case.get('prelude'):
        classes.append('prelude:' + '+'.join(sorted({p[0] for p in case['prelude']})))
    rec.case({'prelude': [p[2] for p in case.get('prelude', [])], 'stmts': [s['text'] for s in case['stmts']]},
             nontrivial=bool(needs) and (deep or needs != {'MODIFICATIONS'}),
             classes=sorted(set(classes)),
             sample={'prelude': [p[2] for p in case.get('prelude', [])],
                     'stmts': [s['text'][:300] for s in case['stmts']], 'needs': sorted(needs)})
    seen = set()
    for sig, detail in viol:
        if sig in seen:
            continue
        seen.add(sig)
        rec.violation(sig, case, detail + ('\n--- prelude ---\n' + '\n'.join(p[2] for p in case['prelude'])
                                           if case.get('prelude') else ''))


def shard(rec, idx, nshards, seed, tier):
    preload()
    if idx == 0:
        # every other statement kind, every run
        for text, in_tx in OTHER:
            _run(rec, dict(prelude=[], stmts=[dict(text=text, in_tx=in_tx, site='other-kind')]))
    n = 110 if tier == 'quick' else 4500
    core.run_given(_strategy(), lambda c: _run(rec, c), seed=seed * 1000 + idx, max_examples=n)


def replay(case):
    preload()
    viol, _ = run_case(case)
    return '; '.join(f'{s}: {d}' for s, d in viol[:2]) or None


def shrink(case, sig):
    def fails(c):
        v, _ = run_case(c)
        return any(s == sig for s, _ in v)

    def simplify(c):
        for sub in core.list_simplify(c['stmts']):
            if sub:
                yield dict(c, stmts=sub)
        for sub in core.list_simplify(c.get('prelude', [])):
            yield dict(c, prelude=sub)
    return core.greedy_shrink(case, fails, simplify, budget_s=60)
