//! C-ABI bridge over the repository's `edgeql-parser` crate (replaces the
//! pyo3 binding crate, which cannot be built offline).  All payloads are JSON.
use std::ffi::{c_char, CStr, CString};
use std::sync::OnceLock;

use edgeql_parser::hash::{self, Hasher};
use edgeql_parser::keywords;
use edgeql_parser::parser::{self, CSTNode};
use edgeql_parser::position::InflatedPos;
use edgeql_parser::tokenizer::{Error, Token, Tokenizer};
use serde_json::{json, Value as J};

static SPEC: OnceLock<parser::Spec> = OnceLock::new();

fn ret(v: J) -> *mut c_char {
    CString::new(serde_json::to_string(&v).unwrap()).unwrap().into_raw()
}
unsafe fn arg<'a>(p: *const c_char) -> &'a str {
    CStr::from_ptr(p).to_str().unwrap()
}
fn err_tuple(e: &Error) -> J {
    json!([e.message, [e.span.start, e.span.end], e.hint, e.details])
}

#[no_mangle]
pub unsafe extern "C" fn vq_free(p: *mut c_char) {
    if !p.is_null() { drop(CString::from_raw(p)); }
}

/// text comes as JSON string (so that NUL characters survive the C boundary)
#[no_mangle]
pub unsafe extern "C" fn vq_tokenize(text_json: *const c_char) -> *mut c_char {
    let r = std::panic::catch_unwind(std::panic::AssertUnwindSafe(|| -> *mut c_char {
    let data: String = serde_json::from_str(arg(text_json)).unwrap();
    let stream = Tokenizer::new(&data[..]).validated_values().with_eof();
    let mut tokens = vec![];
    let mut errors = vec![];
    for res in stream {
        match res {
            Ok(token) => tokens.push(serde_json::to_value(token.cloned()).unwrap()),
            Err(e) => { errors.push(err_tuple(&e)); break; }
        }
    }
    ret(json!({"out": tokens, "errors": errors}))
    }));
    match r { Ok(p) => p, Err(e) => { let msg = if let Some(s) = e.downcast_ref::<&str>() { s.to_string() } else if let Some(s) = e.downcast_ref::<String>() { s.clone() } else { "unknown panic".to_string() }; ret(json!({"panic": msg})) } }
}

#[no_mangle]
pub unsafe extern "C" fn vq_load_spec(spec_json: *const c_char) -> *mut c_char {
    if SPEC.get().is_some() { return ret(json!({"ok": true, "already": true})); }
    match serde_json::from_str::<parser::SpecSerializable>(arg(spec_json)) {
        Ok(s) => { let _ = SPEC.set(s.into()); ret(json!({"ok": true})) }
        Err(e) => ret(json!({"ok": false, "error": e.to_string()})),
    }
}

#[no_mangle]
pub unsafe extern "C" fn vq_production_names() -> *mut c_char {
    match SPEC.get() { Some(s) => ret(json!(s.production_names)), None => ret(J::Null) }
}

/// Flat post-order encoding (no recursion: CSTs of long scripts are deep).
fn cst_to_json(root: &CSTNode) -> J {
    let mut out: Vec<J> = Vec::new();
    // (node, visited)
    let mut stack: Vec<(&CSTNode, bool)> = vec![(root, false)];
    while let Some((n, visited)) = stack.pop() {
        match n {
            CSTNode::Empty => out.push(J::Null),
            CSTNode::Terminal(t) => out.push(json!([t.text, serde_json::to_value(&t.value).unwrap(), t.span.start, t.span.end])),
            CSTNode::Production(p) => {
                if visited {
                    out.push(json!([p.id, p.args.len()]));
                } else {
                    stack.push((n, true));
                    for a in p.args.iter().rev() { stack.push((a, false)); }
                }
            }
        }
    }
    J::Array(out)
}

#[no_mangle]
pub unsafe extern "C" fn vq_parse(start_name: *const c_char, tokens_json: *const c_char) -> *mut c_char {
    let r = std::panic::catch_unwind(std::panic::AssertUnwindSafe(|| -> *mut c_char {
    let Some(spec) = SPEC.get() else { return ret(json!({"fatal": "grammar spec not loaded"})); };
    let tokens: Vec<Token<'static>> = match serde_json::from_str(arg(tokens_json)) {
        Ok(t) => t, Err(e) => return ret(json!({"fatal": format!("bad tokens: {e}")})),
    };
    let mut buf = Vec::with_capacity(tokens.len() + 1);
    buf.push(parser::Terminal::from_start_name(arg(start_name)));
    for t in tokens { buf.push(parser::Terminal::from_token(t)); }
    let ctx = parser::Context::new(spec);
    let (cst, errors) = parser::parse(&buf, &ctx);
    let out = cst.as_ref().map(cst_to_json);
    ret(json!({"out": out, "errors": errors.iter().map(err_tuple).collect::<Vec<_>>()}))
    }));
    match r { Ok(p) => p, Err(e) => { let msg = if let Some(s) = e.downcast_ref::<&str>() { s.to_string() } else if let Some(s) = e.downcast_ref::<String>() { s.clone() } else { "unknown panic".to_string() }; ret(json!({"panic": msg})) } }
}

#[no_mangle]
pub unsafe extern "C" fn vq_keywords() -> *mut c_char {
    let v = |s: &phf_set_alias::Set| s.iter().map(|x| x.to_string()).collect::<Vec<_>>();
    ret(json!({
        "unreserved": v(&keywords::UNRESERVED_KEYWORDS),
        "partial": v(&keywords::PARTIAL_RESERVED_KEYWORDS),
        "future": v(&keywords::FUTURE_RESERVED_KEYWORDS),
        "current": v(&keywords::CURRENT_RESERVED_KEYWORDS),
    }))
}
mod phf_set_alias { pub type Set = phf::Set<&'static str>; }

/// sources: JSON list of strings
#[no_mangle]
pub unsafe extern "C" fn vq_migration_id(parent_json: *const c_char, sources_json: *const c_char) -> *mut c_char {
    let r = std::panic::catch_unwind(std::panic::AssertUnwindSafe(|| -> *mut c_char {
    let parent: String = serde_json::from_str(arg(parent_json)).unwrap();
    let sources: Vec<String> = serde_json::from_str(arg(sources_json)).unwrap();
    let mut h = Hasher::start_migration(&parent);
    for s in &sources {
        if let Err(hash::Error::Tokenizer(msg, pos)) = h.add_source(s) {
            return ret(json!({"error": [msg, pos.offset]}));
        }
    }
    ret(json!({"id": h.make_migration_id()}))
    }));
    match r { Ok(p) => p, Err(e) => { let msg = if let Some(s) = e.downcast_ref::<&str>() { s.to_string() } else if let Some(s) = e.downcast_ref::<String>() { s.clone() } else { "unknown panic".to_string() }; ret(json!({"panic": msg})) } }
}

/// data: JSON string (the source text); offsets: JSON list (sorted by caller)
#[no_mangle]
pub unsafe extern "C" fn vq_source_points(data_json: *const c_char, offsets_json: *const c_char) -> *mut c_char {
    let r = std::panic::catch_unwind(std::panic::AssertUnwindSafe(|| -> *mut c_char {
    let data: String = serde_json::from_str(arg(data_json)).unwrap();
    let mut offsets: Vec<usize> = serde_json::from_str(arg(offsets_json)).unwrap();
    offsets.sort();
    match InflatedPos::from_offsets(data.as_bytes(), &offsets) {
        Ok(v) => ret(json!(v.iter().map(|p| json!([p.line, p.column, p.utf16column, p.offset, p.char_offset])).collect::<Vec<_>>())),
        Err(e) => ret(json!({"error": e.to_string()})),
    }
    }));
    match r { Ok(p) => p, Err(e) => { let msg = if let Some(s) = e.downcast_ref::<&str>() { s.to_string() } else if let Some(s) = e.downcast_ref::<String>() { s.clone() } else { "unknown panic".to_string() }; ret(json!({"panic": msg})) } }
}
