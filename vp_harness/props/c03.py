"""C03 — DESCRIBE output rebuilds the same schema.

Generated: schema S reached (a) directly from a generated SDL document, or
(b) through a chain of computed migrations (so S carries the traces of ALTERs,
renames and rebases); output language in {DDL, SDL}; replaying session:
current module in {default, other (exists in S or not), a module that does not
exist} .

Oracle (round trip): ddl_text_from_schema(S) / sdl_text_from_schema(S) must be
accepted on a database that contains only the standard library, under the
drawn session module, and yield a schema equal to S (independent semantic
dump; maintainers' diff empty both ways).
"""
from __future__ import annotations

from vp_harness import core, schemaenv as SE
from vp_harness.gen import sdl as G

ID = 'C03'
LEVEL = 'exploration'
RULE = (
    'case = (how S is reached [sdl text | chain of sdl texts], language, session '
    'module). Non-trivial = S has >=3 user objects and >=1 stored expression with a '
    'name reference (computed, default, constraint, index, alias, policy), and the '
    'replaying session module differs from the module(s) of S or S was reached '
    'through ALTERs; distinct by hash of (S dump, language, session).')
ASSUMPTIONS = [
    'module aliases that shadow a real module name redefine what qualified names mean '
    'and are not generated',
]
MIN_EVALS = {'quick': 80, 'thorough': 4000}
SESSION_MODULES = ['default', 'other', 'nosuchmodule']


def preload():
    SE.setup()


def build_schema(case):
    S = SE.setup()
    cur = S['std']
    if case['how'] == 'direct':
        return SE.target_from_sdl(case['texts'][-1])
    if case['how'] == 'ddl':
        # an explicit DDL script: the schema is not built by the SDL planner under test
        return SE.run_ddl(cur, case['texts'][-1])
    for t in case['texts']:
        cur = SE.migrate(cur, t)
    # DDL issued from a session whose current module differs from the module
    # of the object being altered (names are resolved through the session)
    for stmt in case.get('extra_ddl', []):
        try:
            cur = S['tb'].BaseSchemaTest.run_ddl(
                cur, stmt, default_module=case.get('build_module', 'default'))
        except S['errors'].EdgeDBError as e:
            raise SE.Rejected(str(e)) from e
    return cur


def run_case(case):
    S = SE.setup()
    info = dict(status='ok')
    try:
        schema = build_schema(case)
    except SE.Rejected as e:
        info['status'] = 'build-rejected'
        return [], info
    s_ddl = S['s_ddl']
    lang = case['lang']
    try:
        if lang == 'ddl':
            text = s_ddl.ddl_text_from_schema(schema)
        else:
            text = s_ddl.sdl_text_from_schema(schema)
    except Exception as e:
        return [(f'describe-raised:{lang}:{type(e).__name__}',
                 f'describing the schema as {lang.upper()} raised {type(e).__name__}: {e}'
                 f'\n--- source ---\n{case["texts"][-1]}')], info
    info['text_len'] = len(text)
    mod = case['session']
    try:
        if lang == 'ddl':
            R = S['tb'].BaseSchemaTest.run_ddl(S['std'], text, default_module=mod) \
                if text.strip() else S['std']
        else:
            R = S['tb'].BaseSchemaTest.run_ddl(
                S['std'],
                f'START MIGRATION TO {{ {text} }};\nPOPULATE MIGRATION;\nCOMMIT MIGRATION;',
                default_module=mod)
    except S['errors'].EdgeDBError as e:
        return [(f'replay-rejected:{lang}:{type(e).__name__}:{_msgclass(str(e))}',
                 f'the {lang.upper()} text produced for the schema is rejected when applied to '
                 f'an empty database (session module {mod!r}): {type(e).__name__}: {e}\n'
                 f'--- {lang} text ---\n{text}\n--- source ---\n{case["texts"][-1]}')], info
    except Exception as e:
        return [(f'replay-raised:{lang}:{type(e).__name__}',
                 f'applying the {lang.upper()} text produced for the schema raised an internal '
                 f'error (session module {mod!r}): {type(e).__name__}: {e}\n'
                 f'--- {lang} text ---\n{text}')], info
    from vp_harness.oracles import semdump as SD
    dr = SD.semdump(R)
    dt = SD.semdump(schema)
    if dr != dt:
        return [(f'{lang}:semdump:' + str(SD.first_diff_sig(dr, dt)),
                 f'schema rebuilt from the {lang.upper()} text differs (session module {mod!r}): '
                 + '; '.join(SD.diff(dr, dt, 4))
                 + f'\n--- {lang} text ---\n{text}\n--- source ---\n{case["texts"][-1]}')], info
    c = SE.compare(R, schema, f'schema rebuilt from {lang.upper()} text vs original')
    if c:
        return [(f'{lang}:' + c[0], c[1] + f'\n--- {lang} text ---\n{text}')], info
    return [], info


def _msgclass(msg):
    import re
    msg = msg.split('\n')[0]
    msg = re.sub(r"'[^']*'", "'_'", msg)
    msg = re.sub(r'\d+', 'N', msg)
    return msg[:60]


def _strategy():
    from hypothesis import strategies as st

    @st.composite
    def cases(draw):
        s = draw(G.schema_strategy())
        if draw(st.integers(0, 4)) == 0:
            # declarations tied by weak dependencies: the printed SDL has to be orderable again
            G.add_weak_family(s, draw)
        fam_edit = None
        fam_name = None
        if draw(st.integers(0, 2)) == 0:
            # a structural family (gen/families.py); sometimes reached through one of its edits
            from vp_harness.gen import families as F
            if draw(st.integers(0, 3)) == 0:
                fam = F.cross_module_backlink(draw, draw(st.sampled_from(sorted(s['modules']))))
            else:
                fam = F.draw_family(draw, s['modules'])
            if fam.get('ddl') and draw(st.integers(0, 3)) > 0:
                case = dict(how='ddl', texts=[fam['ddl']], lang=draw(st.sampled_from(['ddl', 'sdl'])),
                            session=draw(st.sampled_from(SESSION_MODULES)), family='family:' + fam['name'])
                return case
            s = F.add(s, fam['A'], draw)
            fam_name = fam['name']
            if fam['B'] and draw(st.booleans()):
                fam_edit = (fam, draw(st.sampled_from(sorted(fam['B']))))
        texts = [G.render(s)]
        how = 'direct'
        if fam_edit is not None:
            from vp_harness.gen import families as F
            s = F.replace(s, fam_edit[0], fam_edit[1])
            texts.append(G.render(s))
            how = 'chain'
        if draw(st.integers(0, 2)) == 0:
            how = 'chain'
            for _ in range(draw(st.integers(1, 2))):
                s, _e = G.mutate(s, draw)
                texts.append(G.render(s))
        case = dict(how=how, texts=texts, lang=draw(st.sampled_from(['ddl', 'sdl'])),
                    session=draw(st.sampled_from(SESSION_MODULES)))
        if fam_edit is not None:
            case['family'] = f'family:{fam_edit[0]["name"]}:{fam_edit[1]}'
        elif fam_name is not None:
            case['family'] = f'family:{fam_name}'
        # cross-module DDL with short names
        mods = s['modules']
        if len(mods) > 1 and draw(st.booleans()):
            bm = draw(st.sampled_from(sorted(mods)))
            om = [m for m in mods if m != bm][0]
            shorts = [d for d in mods[bm] if d['kind'] in ('scalar', 'type')]
            targets = [d for d in mods[om] if d['kind'] == 'type']
            if shorts and targets:
                sh = draw(st.sampled_from(shorts))
                tg = draw(st.sampled_from(targets))
                if sh['kind'] == 'scalar':
                    expr = draw(st.sampled_from([
                        f"<array<{sh['name']}>>[]", f"<{sh['name']}>{{}}",
                        f"<tuple<{sh['name']}, str>>{{}}"]))
                    stmt = (f"alter type {om}::{tg['name']} {{ create property xmod := ({expr}) }};")
                else:
                    stmt = (f"alter type {om}::{tg['name']} {{ create multi link xmod := "
                            f"(select {sh['name']}) }};")
                case['extra_ddl'] = [stmt]
                case['build_module'] = bm
                case['how'] = 'chain'
                if case['texts']:
                    pass
        return case
    return cases()


def _run(rec, case):
    viol, info = run_case(case)
    if info['status'] != 'ok':
        rec.evaluations += 1
        rec.skip(info['status'])
        return
    src = case['texts'][-1]
    has_expr = any(k in src for k in (':= (', 'using (', ' on (', 'default :='))
    multi_mod = 'module other' in src
    nontrivial = has_expr and src.count(';') >= 3 and (
        case['session'] != 'default' or case['how'] == 'chain' or multi_mod)
    rec.case({'texts': case['texts'], 'lang': case['lang'], 'session': case['session'],
              'extra': case.get('extra_ddl')},
             nontrivial=nontrivial,
             classes=['lang:' + case['lang'], 'session:' + case['session'], 'how:' + case['how']]
             + (['cross-module-ddl'] if case.get('extra_ddl') else [])
             + (['two-modules'] if multi_mod else []) + (['has-overloaded'] if 'overloaded' in src else []),
             sample={'lang': case['lang'], 'session': case['session'], 'source': src[:500]})
    fam = '|' + case['family'] if case.get('family') else ''
    for sig, detail in viol[:1]:
        rec.violation(sig + fam, case, detail)


def shard(rec, idx, nshards, seed, tier):
    SE.setup()
    n = 12 if tier == 'quick' else 350
    core.run_given(_strategy(), lambda c: _run(rec, c), seed=seed * 1000 + idx,
                   max_examples=n)


def replay(case):
    SE.setup()
    viol, _ = run_case(case)
    return '; '.join(f'{s}: {d}' for s, d in viol[:2]) or None
