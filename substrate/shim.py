"""Substrate shim: makes the repository's pure-Python code importable and
runnable offline by installing stand-ins for the native modules.

* `edb._edgeql_parser`  -> ctypes bridge to the repository's *real* Rust
  tokenizer / LR driver (built from the working tree by substrate/build.py)
* `parsing`             -> substrate/pylib/parsing.py (LR(1) table generator)
* `edb.common.turbo_uuid`, `edb._buildmeta`, Cython / pyo3 modules -> stubs

Importing this module installs everything (idempotent).
"""
from __future__ import annotations

import ctypes
import json
import os
import pathlib
import sys
import types
import uuid

_HERE = pathlib.Path(__file__).resolve().parent
REPO = os.environ.get('VERIF_REPO', '/repo')
for _p in (str(_HERE / 'pylib'), REPO):
    if _p not in sys.path:
        sys.path.insert(0, _p)

LIB = os.environ.get('VQ_LIB')
if not LIB:
    sys.path.insert(0, str(_HERE))
    import build as _build  # type: ignore
    LIB = str(_build.build())
    os.environ['VQ_LIB'] = LIB
_lib = ctypes.CDLL(LIB)
for _n in ('vq_tokenize', 'vq_load_spec', 'vq_production_names', 'vq_parse',
           'vq_keywords', 'vq_migration_id', 'vq_source_points'):
    getattr(_lib, _n).restype = ctypes.c_void_p
_lib.vq_free.argtypes = [ctypes.c_void_p]


def _call(name, *args):
    cargs = [ctypes.c_char_p(a.encode('utf-8')) for a in args]
    p = getattr(_lib, name)(*cargs)
    try:
        r = json.loads(ctypes.string_at(p).decode('utf-8'))
    finally:
        _lib.vq_free(p)
    if isinstance(r, dict) and 'panic' in r:
        raise RustPanic(r['panic'])
    return r


class RustPanic(RuntimeError):
    """the repository's Rust code panicked (pyo3 would raise PanicException)"""


def _mod(name, **attrs):
    m = types.ModuleType(name)
    m.__dict__.update(attrs)
    sys.modules[name] = m
    parent, _, child = name.rpartition('.')
    if parent and parent in sys.modules:
        setattr(sys.modules[parent], child, m)
    return m


class SyntaxError(Exception):
    pass


def _conv_value(v):
    if v is None:
        return None
    (k, x), = v.items()
    if k == 'BigInt':
        return int(x, 16)
    if k == 'Decimal':
        return float(x)
    if k == 'Bytes':
        return bytes(x)
    return x


class OpaqueToken:
    __slots__ = ('_j',)

    def __init__(self, j):
        self._j = j

    def __repr__(self):
        return f"{self._j['text']}[{self._j['kind']}]"

    def __reduce__(self):
        return (unpickle_token, (json.dumps(self._j).encode(),))


def unpickle_token(data):
    return OpaqueToken(json.loads(data))


class ParserResult:
    def __init__(self, out, errors):
        self.out = out
        self.errors = errors

    def pack(self):
        return b'\x00' + json.dumps([t._j for t in self.out]).encode()


def _errs(lst):
    return [(m, tuple(sp), h, d) for m, sp, h, d in lst]


def tokenize(s):
    r = _call('vq_tokenize', json.dumps(s))
    return ParserResult([OpaqueToken(t) for t in r['out']], _errs(r['errors']))


def unpack(serialized):
    if serialized[0] == 0:
        return [OpaqueToken(t) for t in json.loads(serialized[1:])]
    raise NotImplementedError('normalized sources are not supported')


class Terminal:
    __slots__ = ('text', 'value', 'start', 'end')


class Production:
    __slots__ = ('id', 'args')


class CSTNode:
    __slots__ = ('production', 'terminal')


def _conv_cst(flat):
    stack = []
    for j in flat:
        n = CSTNode()
        n.production = n.terminal = None
        if j is None:
            pass
        elif len(j) == 4:
            t = Terminal()
            t.text, v, t.start, t.end = j
            t.value = _conv_value(v)
            n.terminal = t
        else:
            p = Production()
            p.id, nargs = j
            if nargs:
                p.args = stack[-nargs:]
                del stack[-nargs:]
            else:
                p.args = []
            n.production = p
        stack.append(n)
    assert len(stack) == 1
    return stack[0]


_PRODUCTIONS = None


def preload_spec(path=None):
    global _PRODUCTIONS
    if _PRODUCTIONS is not None:
        return
    from edb.common import parsing as ep
    from edb.edgeql.parser.grammar import start
    spec = ep.load_parser_spec(start)
    assert spec.pureLR, spec.conflicts[:3]
    js = ep.spec_to_json(spec)
    r = _call('vq_load_spec', js)
    assert r['ok'], r
    names = [tuple(x) for x in _call('vq_production_names')]
    _PRODUCTIONS = ep.load_spec_productions(names, start)


def parse(start_token_name, tokens):
    if _PRODUCTIONS is None:
        raise AssertionError('grammar spec not loaded')
    r = _call('vq_parse', start_token_name,
              json.dumps([t._j for t in tokens]))
    if 'fatal' in r:
        raise ValueError(r['fatal'])
    out = _conv_cst(r['out']) if r['out'] is not None else None
    return ParserResult(out, _errs(r['errors'])), _PRODUCTIONS


class Hasher:
    def __init__(self, parent):
        self._parent = parent
        self._sources = []

    @staticmethod
    def start_migration(parent_id):
        return Hasher(parent_id)

    def add_source(self, data):
        r = _call('vq_migration_id', json.dumps(self._parent),
                  json.dumps(self._sources + [data]))
        if 'error' in r:
            msg, off = r['error']
            raise SyntaxError(msg, (off, None), None, None)
        self._sources.append(data)

    def make_migration_id(self):
        r = _call('vq_migration_id', json.dumps(self._parent),
                  json.dumps(self._sources))
        return r['id']


class SourcePoint:
    def __init__(self, line, column, utf16column, offset, char_offset):
        self.zero_based_line = line
        self.line = line + 1
        self.column = column + 1
        self.utf16column = utf16column
        self.offset = offset
        self.char_offset = char_offset

    @staticmethod
    def from_offsets(data, offsets):
        r = _call('vq_source_points', json.dumps(data.decode('utf-8')),
                  json.dumps(sorted(offsets)))
        if isinstance(r, dict):
            raise RuntimeError(r['error'])
        return [SourcePoint(*p) for p in r]


class Entry:
    pass


def normalize(text):
    raise NotImplementedError('normalize is not available in the shim')


class UUID(uuid.UUID):
    def __init__(self, inp):
        if isinstance(inp, (bytes, bytearray, memoryview)):
            super().__init__(bytes=bytes(inp))
        else:
            super().__init__(inp)


UUID.__module__ = 'edb.common.turbo_uuid'


def install():
    import edb  # noqa
    kw = _call('vq_keywords')
    _mod(
        'edb._edgeql_parser',
        SyntaxError=SyntaxError, ParserResult=ParserResult, Hasher=Hasher,
        unreserved_keywords=frozenset(map(sys.intern, kw['unreserved'])),
        partial_reserved_keywords=frozenset(map(sys.intern, kw['partial'])),
        future_reserved_keywords=frozenset(map(sys.intern, kw['future'])),
        current_reserved_keywords=frozenset(map(sys.intern, kw['current'])),
        Entry=Entry, normalize=normalize, parse=parse,
        preload_spec=preload_spec, save_spec=None,
        CSTNode=CSTNode, Production=Production, Terminal=Terminal,
        SourcePoint=SourcePoint, OpaqueToken=OpaqueToken,
        tokenize=tokenize, unpickle_token=unpickle_token, unpack=unpack,
        offset_of_line=None,
    )

    import edb.common  # noqa
    _mod('edb.common.turbo_uuid', UUID=UUID)


install()


def _install_more():
    import importlib.abc
    import importlib.machinery

    class _Unavailable:
        def __init__(self, *a, **k):
            raise NotImplementedError('native module not available offline')

    def _pg_parse(*a, **k):
        raise NotImplementedError('libpg_query is not available offline')

    specs = {
        'edb.pgsql.parser.parser': dict(
            Source=type('Source', (), {}),
            NormalizedSource=type('NormalizedSource', (), {}),
            deserialize=_pg_parse, pg_parse=_pg_parse, pg_normalize=_pg_parse),
        'edb.server.compiler.rpc': dict(
            CompilationRequest=type('CompilationRequest', (_Unavailable,), {}),
            SQLParamsSource=type('SQLParamsSource', (_Unavailable,), {})),
        'edb.server._rust_native._conn_pool': dict(ConnPool=type('ConnPool', (_Unavailable,), {})),
        'edb.server.pgcon.pgcon': dict(PGConnection=type('PGConnection', (_Unavailable,), {})),
        'edb.server._rust_native._pg_rust': dict(PyConnectionParams=type('PyConnectionParams', (_Unavailable,), {})),
    }

    class F(importlib.abc.MetaPathFinder, importlib.abc.Loader):
        def find_spec(self, name, path, target=None):
            if name in specs:
                return importlib.machinery.ModuleSpec(name, self)
            if name == 'edb.server._rust_native':
                return importlib.machinery.ModuleSpec(
                    name, self, is_package=True)

        def create_module(self, spec):
            m = types.ModuleType(spec.name)
            m.__dict__.update(specs.get(spec.name, {}))
            if spec.name == 'edb.server._rust_native':
                m.__path__ = []
            return m

        def exec_module(self, m):
            pass

    sys.meta_path.insert(0, F())


_install_more()

_mod('edb._buildmeta', VERSION=(7, 0, 0, 1, ('verif',)),
     SHARED_DATA_DIR='/nonexistent', RUNSTATE_DIR='/nonexistent',
     PG_CONFIG_PATH='/usr/bin/pg_config')


def _install_tools_test():
    """`edb.tools.test` pulls in click & co; the test bases only need the
    decorators module."""
    import importlib.util
    import edb.tools  # noqa
    if 'edb.tools.test' in sys.modules:
        return
    spec = importlib.util.spec_from_file_location(
        'edb.tools.test', os.path.join(REPO, 'edb/tools/test/decorators.py'))
    m = importlib.util.module_from_spec(spec)
    sys.modules['edb.tools.test'] = m
    spec.loader.exec_module(m)
    edb.tools.test = m


try:
    _install_tools_test()
except Exception:  # pragma: no cover - only matters for testbase users
    pass
