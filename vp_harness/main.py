from __future__ import annotations

import argparse
import importlib
import os
import sys
import traceback


def main() -> int:
    ap = argparse.ArgumentParser()
    ap.add_argument('prop')
    ap.add_argument('--tier', default=os.environ.get('VERIF_TIER', 'quick'),
                    choices=['quick', 'thorough'])
    ap.add_argument('--replay', default=None)
    a = ap.parse_args()
    try:
        from vp_harness import core
        mod = importlib.import_module(f'vp_harness.props.{a.prop.lower()}')
        return core.run_check(mod, a.tier, a.replay)
    except SystemExit:
        raise
    except BaseException:
        traceback.print_exc()
        print(f'HARNESS-ERROR property={a.prop} (exit 2: not a verdict)')
        return 2


if __name__ == '__main__':
    sys.exit(main())
