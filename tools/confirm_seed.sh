#!/bin/bash
# tools/confirm_seed.sh <PROP> <k> : confirm a sub-agent's seeded change in its scratch worktree and store it under /verif/seeded/
set -u
P=$1; K=$2
WT=${SEED_WT_ROOT:-/tmp/wt}/$P; SRC=${SEED_OUT_ROOT:-/tmp/wt-out}/$P/$K; DST=/verif/seeded/$P-${3:-$K}
[ -d "$WT" ] || git -C /repo worktree add -q --detach "$WT" HEAD
git -C "$WT" reset -q --hard; git -C "$WT" checkout -q --detach "$(git -C /repo rev-parse HEAD)"
run_demo() { (cd "$SRC" && VERIF_REPO=$WT PYTHONPATH=/root/subst timeout 900 /venv/bin/python demo.py >$SRC.demo.$1.log 2>&1; echo $?); }
clean_rc=$(run_demo clean)
(git -C "$WT" apply "$SRC/patch.diff" 2>/dev/null || git -C "$WT" apply --3way "$SRC/patch.diff") || { echo "patch does not apply"; exit 2; }
patched_rc=$(run_demo patched)
tests=$(cd "$WT" && timeout 1200 /venv/bin/python -m pytest -q -p no:cacheprovider --continue-on-collection-errors tests/common tests/test_profiling.py tests/test_sourcecode.py 2>&1 | tail -1)
git -C "$WT" reset -q --hard
echo "$P-$K demo clean rc=$clean_rc patched rc=$patched_rc tests: $tests"
if [ "$clean_rc" = 0 ] && [ "$patched_rc" != 0 ] && echo "$tests" | grep -q "58 passed"; then
  mkdir -p "$DST"; cp "$SRC/patch.diff" "$SRC/demo.py" "$DST/"
  python3 - "$SRC/meta.json" "$DST/meta.json" "$clean_rc" "$patched_rc" "$tests" <<'PY'
import json,sys
m=json.load(open(sys.argv[1]))
m['confirmed_by_main_session']={'demo_exit_clean':int(sys.argv[3]),'demo_exit_patched':int(sys.argv[4]),'pinned_tests_with_patch':sys.argv[5],
  'how':'tools/confirm_seed.sh: demo on clean worktree at /repo HEAD, apply patch.diff, demo again, pinned suite (tests/common tests/test_profiling.py tests/test_sourcecode.py, --continue-on-collection-errors), revert'}
json.dump(m,open(sys.argv[2],'w'),indent=1)
PY
  echo "CONFIRMED -> $DST"
else
  echo "NOT CONFIRMED"
fi
