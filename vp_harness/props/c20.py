"""C20 — dependency ordering respects every dependency and finds real cycles.

Generated: (i) exhaustive enumeration of all graphs on n<=3 nodes with one of
{none, hard, merge, weak, loop-control} on every ordered pair (self loops
included), n=4 over {none, hard, weak} in thorough; (ii) Hypothesis graphs up
to 10 nodes with missing references, allow_unresolved, str/int keys, set and
OrderedSet deps, permuted insertion order.

Oracle: validity predicate + independent cycle detection (own DFS) +
determinism (same process twice; second process with another PYTHONHASHSEED).
"""
from __future__ import annotations

import json
import os
import subprocess
import sys

from vp_harness import paths  # noqa: F401  (puts the repository on sys.path)
from vp_harness import core

ID = 'C20'
LEVEL = 'exploration'
RULE = (
    'exhaustive: every assignment of {none,hard,merge,weak,loop-control} to the '
    'n*n ordered pairs for n<=3 (n=4 over {none,hard,weak} in thorough), enumerated '
    'by index so every case is distinct by construction; random: Hypothesis graphs '
    'with <=10 nodes. Non-trivial = >=2 hard/merge edges, or >=1 weak edge lying on a '
    'cycle of hard+merge+weak edges; distinct by adjacency matrix (+options).')
ASSUMPTIONS = [
    'loop_control edges are not named by the property: for graphs whose only cycles '
    'pass through a loop_control edge either outcome (CycleError or an order) is accepted',
]
MIN_EVALS = {'quick': 100000, 'thorough': 1000000}

NONE, HARD, MERGE, WEAK, LC = range(5)


def _T():
    from edb.common import topological
    return topological


def cyclic(nodes, edges) -> bool:
    adj = {u: [] for u in nodes}
    for a, b in edges:
        adj[a].append(b)
    color = {}
    for root in nodes:
        if root in color:
            continue
        stack = [(root, iter(adj[root]))]
        color[root] = 1
        while stack:
            u, it = stack[-1]
            for v in it:
                c = color.get(v)
                if c == 1:
                    return True
                if c is None:
                    color[v] = 1
                    stack.append((v, iter(adj[v])))
                    break
            else:
                color[u] = 2
                stack.pop()
    return False


def on_cycle(nodes, edges, edge) -> bool:
    """is `edge`=(a,b) on a cycle of `edges`?  i.e. is a reachable from b"""
    a, b = edge
    adj = {u: [] for u in nodes}
    for x, y in edges:
        adj[x].append(y)
    seen = {b}
    todo = [b]
    while todo:
        u = todo.pop()
        if u == a:
            return True
        for v in adj[u]:
            if v not in seen:
                seen.add(v)
                todo.append(v)
    return False


def build_graph(case):
    """case: dict(keys=[...insertion order...], edges=[[a,b,kind],...],
    ordered=bool, allow=bool, missing=[[a,name,kind],...])"""
    T = _T()
    from edb.common.ordered import OrderedSet
    mk = OrderedSet if case.get('ordered') else set
    g = {}
    for k in case['keys']:
        per = {HARD: [], MERGE: [], WEAK: [], LC: []}
        for a, b, kind in case['edges']:
            if a == k:
                per[kind].append(b)
        for a, name, kind in case.get('missing', ()):
            if a == k:
                per[kind].append(name)
        g[k] = T.DepGraphEntry(
            item=('item', k),
            deps=mk(per[HARD]),
            merge=mk(per[MERGE]) if (per[MERGE] or case.get('merge_empty')) else None,
            weak_deps=mk(per[WEAK]),
            loop_control=mk(per[LC]),
        )
    return g


def check_case(case):
    """Return (sig, detail) on a violation, else None."""
    T = _T()
    keys = case['keys']
    edges = [tuple(e) for e in case['edges']]
    hardmerge = [(a, b) for a, b, k in edges if k in (HARD, MERGE)]
    weak = [(a, b) for a, b, k in edges if k == WEAK]
    lc = [(a, b) for a, b, k in edges if k == LC]
    missing = case.get('missing', ())
    allow = bool(case.get('allow'))

    def run(fn):
        g = build_graph(case)
        try:
            return fn(g, allow_unresolved=allow), None
        except (T.CycleError, T.UnresolvedReferenceError) as e:
            return None, e
        except RecursionError:
            raise
        except Exception as e:  # any other exception type is a failure mode
            return None, e

    res, err = run(T.sort)
    if err is not None and not isinstance(
            err, (T.CycleError, T.UnresolvedReferenceError)):
        return ('other-exception:' + type(err).__name__,
                f'sort raised {type(err).__name__}: {err}')

    if missing and not allow:
        # a missing reference must be reported (cycle detection happens later
        # in the code; an unresolved reference wins)
        if not isinstance(err, T.UnresolvedReferenceError):
            return ('missing-not-reported',
                    f'reference to missing item not reported: got {res!r} / {err!r}')
        return None
    if isinstance(err, T.UnresolvedReferenceError):
        return ('false-unresolved', f'UnresolvedReferenceError with no missing '
                f'reference (or allow_unresolved): {err}')

    hc = cyclic(keys, hardmerge)
    if hc:
        if err is None:
            return ('missed-hard-cycle', f'hard/merge cycle not reported, got {res!r}')
        return None
    hlc = cyclic(keys, hardmerge + lc) if lc else False
    if err is not None:
        if hlc:
            return None  # cycle through a loop-control edge: either is fine
        return ('false-cycle', f'CycleError without a hard cycle: {err}')
    items = [x[1] for x in res]
    if sorted(map(repr, items)) != sorted(map(repr, keys)) or len(items) != len(keys):
        return ('not-permutation', f'result {items!r} is not a permutation of {keys!r}')
    pos = {x: i for i, x in enumerate(items)}
    for a, b in hardmerge:
        if pos[b] > pos[a]:
            return ('hard-violated', f'{a!r} before its dependency {b!r}: {items!r}')
    if weak and not cyclic(keys, hardmerge + weak + lc):
        for a, b in weak:
            if pos[b] > pos[a]:
                return ('weak-not-honoured',
                        f'acyclic overall but weak {a!r}->{b!r} not honoured: {items!r}')
    # determinism + sort_ex agreement
    res2, err2 = run(T.sort)
    if err2 is not None or [x[1] for x in res2] != items:
        return ('nondeterministic', f'second call differs: {res2!r} vs {items!r}')
    rex, errx = run(lambda g, **kw: [k for k, _ in T.sort_ex(g, **kw)])
    if errx is not None or list(rex) != items:
        return ('sort-ex-disagrees', f'sort_ex keys {rex!r} vs sort {items!r}')
    # normalize: parents merged before children (only defined without missing
    # refs, since normalize() has no allow_unresolved)
    if not missing and any(k == MERGE for _, _, k in edges) and not hlc:
        g = build_graph(case)
        done = set()
        calls = []
        parents = {k: [b for a, b, kk in edges if a == k and kk == MERGE] for k in keys}
        state = {'cur': None}

        def merger(item, parent):
            calls.append((item[1], parent[1]))
            return item

        try:
            out = list(T.normalize(g, merger))
        except Exception as e:
            return ('normalize-raised', f'normalize raised {type(e).__name__}: {e}')
        seen_children = []
        merged_of = {k: set() for k in keys}
        for child, parent in calls:
            # the parent must already have received all of its own merges
            if merged_of[parent] != set(parents[parent]):
                return ('normalize-order',
                        f'{parent!r} merged into {child!r} before {parent!r} was '
                        f'itself fully merged; calls={calls!r}')
            merged_of[child].add(parent)
        for k in keys:
            if merged_of[k] != set(parents[k]):
                return ('normalize-missing-merge', f'{k!r} merges {merged_of[k]!r} != {parents[k]!r}')
        if sorted(map(repr, out)) != sorted(repr(('item', k)) for k in keys):
            return ('normalize-items', f'normalize returned {out!r}')
    return None


def is_nontrivial(case) -> bool:
    edges = [tuple(e) for e in case['edges']]
    hm = [(a, b) for a, b, k in edges if k in (HARD, MERGE)]
    if len(hm) >= 2:
        return True
    allw = [(a, b) for a, b, k in edges if k in (HARD, MERGE, WEAK)]
    for a, b, k in edges:
        if k == WEAK and on_cycle(case['keys'], allw, (a, b)):
            return True
    return False


def classes_of(case):
    ks = {k for _, _, k in case['edges']}
    out = ['n=%d' % len(case['keys'])]
    for k, nm in ((HARD, 'hard'), (MERGE, 'merge'), (WEAK, 'weak'), (LC, 'loopctl')):
        if k in ks:
            out.append('has-' + nm)
    if any(a == b for a, b, _ in case['edges']):
        out.append('self-loop')
    if case.get('missing'):
        out.append('missing-ref')
    if case.get('allow'):
        out.append('allow-unresolved')
    if case.get('ordered'):
        out.append('orderedset-deps')
    return out


def enum_case(n, kinds, idx):
    pairs = n * n
    edges = []
    x = idx
    nk = len(kinds)
    for p in range(pairs):
        x, d = divmod(x, nk)
        k = kinds[d]
        if k != NONE:
            edges.append([p // n, p % n, k])
    return dict(keys=list(range(n)), edges=edges)


def _graph_strategy():
    from hypothesis import strategies as st

    @st.composite
    def graphs(draw):
        n = draw(st.integers(1, 10))
        strkeys = draw(st.booleans())
        names = [f'k{i}' if strkeys else i for i in range(n)]
        order = draw(st.permutations(names))
        density = draw(st.sampled_from([0.05, 0.15, 0.3, 0.5]))
        kinds_w = draw(st.sampled_from([
            (HARD, WEAK), (HARD, WEAK, WEAK), (HARD, MERGE, WEAK),
            (HARD, MERGE, WEAK, LC), (WEAK,), (HARD,)]))
        edges = []
        acyclic_bias = draw(st.booleans())
        for a in range(n):
            for b in range(n):
                if draw(st.floats(0, 1)) < density:
                    k = draw(st.sampled_from(kinds_w))
                    if acyclic_bias and k in (HARD, MERGE) and b >= a:
                        continue
                    edges.append([names[a], names[b], k])
        missing = []
        if draw(st.integers(0, 4)) == 0:
            for _ in range(draw(st.integers(1, 2))):
                missing.append([draw(st.sampled_from(names)),
                                'zz-missing' if strkeys else 999,
                                draw(st.sampled_from([HARD, MERGE, WEAK, LC]))])
        return dict(keys=list(order), edges=edges, missing=missing,
                    allow=draw(st.booleans()) if missing else draw(st.integers(0, 5)) == 0,
                    ordered=draw(st.booleans()),
                    merge_empty=draw(st.booleans()))
    return graphs()


def _orders_for(cases):
    """Used in a second process: the order (or error class) for each case."""
    T = _T()
    out = []
    for case in cases:
        g = build_graph(case)
        try:
            out.append([repr(x[1]) for x in T.sort(g, allow_unresolved=bool(case.get('allow')))])
        except Exception as e:
            out.append(type(e).__name__)
    return out


def shard(rec, idx, nshards, seed, tier):
    spaces = [(1, (NONE, HARD, MERGE, WEAK, LC)),
              (2, (NONE, HARD, MERGE, WEAK, LC)),
              (3, (NONE, HARD, MERGE, WEAK, LC))]
    if tier == 'thorough':
        spaces.append((4, (NONE, HARD, WEAK)))
    for n, kinds in spaces:
        total = len(kinds) ** (n * n)
        lo = total * idx // nshards
        hi = total * (idx + 1) // nshards
        for i in range(lo, hi):
            case = enum_case(n, kinds, i)
            v = check_case(case)
            nt = is_nontrivial(case)
            rec.evaluations += 1
            if nt:
                rec.nontrivial_enum += 1
                if len(rec.samples) < 3 and i % 977 == 0:
                    rec.samples.append(case)
            if i % 1009 == 0:
                for c in classes_of(case):
                    rec.classes['sampled:' + c] += 1
            if v:
                rec.violation(v[0], case, v[1])
        rec.extra.setdefault('exhaustive_spaces', {})[
            f'n={n},kinds={len(kinds)}'] = hi - lo
    # random part
    ncases = 5000 if tier == 'quick' else 150000
    det_batch = []

    def body(case):
        v = check_case(case)
        rec.case(case, nontrivial=is_nontrivial(case), classes=classes_of(case))
        if v:
            rec.violation(v[0], case, v[1])
        elif case.get('ordered') and isinstance(case['keys'][0], str) \
                and len(det_batch) < 400:
            det_batch.append(case)

    core.run_given(_graph_strategy(), body, seed=seed * 1000 + idx,
                   max_examples=ncases)
    # cross-process determinism with a different hash seed
    if det_batch:
        mine = _orders_for(det_batch)
        env = dict(os.environ)
        env['PYTHONHASHSEED'] = str(1 + (seed * 31 + idx) % 4000000000)
        p = subprocess.run(
            [sys.executable, '-m', 'vp_harness.props.c20', '--orders'],
            input=json.dumps(det_batch), capture_output=True, text=True,
            env=env, cwd=str(core.VERIF))
        if p.returncode != 0:
            raise core.HarnessError('determinism subprocess failed: ' + p.stderr[-2000:])
        theirs = json.loads(p.stdout)
        rec.extra['cross_process_determinism_cases'] = len(det_batch)
        for case, a, b in zip(det_batch, mine, theirs):
            if a != b:
                c2 = dict(case)
                c2['xproc'] = True
                rec.violation('nondeterministic-across-hashseed', c2,
                              f'order differs across PYTHONHASHSEED: {a!r} vs {b!r}')


def replay(case):
    if case.get('xproc'):
        c = {k: v for k, v in case.items() if k != 'xproc'}
        orders = set()
        for hs in ('0', '1', '12345', '987654321'):
            env = dict(os.environ)
            env['PYTHONHASHSEED'] = hs
            p = subprocess.run(
                [sys.executable, '-m', 'vp_harness.props.c20', '--orders'],
                input=json.dumps([c]), capture_output=True, text=True,
                env=env, cwd=str(core.VERIF))
            orders.add(p.stdout.strip())
        if len(orders) > 1:
            return f'order depends on PYTHONHASHSEED: {sorted(orders)!r}'
    v = check_case(case)
    return f'{v[0]}: {v[1]}' if v else None


def shrink(case, sig):
    def fails(c):
        v = check_case(c)
        return bool(v) and v[0] == sig

    def simplify(c):
        for sub in core.list_simplify(c['edges']):
            yield dict(c, edges=sub)
        if c.get('missing'):
            for sub in core.list_simplify(c['missing']):
                yield dict(c, missing=sub)
        used = {a for a, _, _ in c['edges']} | {b for _, b, _ in c['edges']} | \
            {a for a, _, _ in c.get('missing', ())}
        for k in c['keys']:
            if k not in used:
                yield dict(c, keys=[x for x in c['keys'] if x != k])
    if case.get('xproc'):
        return case
    return core.greedy_shrink(case, fails, simplify)


def finish(cov, tier):
    cov['exhaustive'] = True
    cov['exhaustive_note'] = (
        'the enumerated sub-spaces listed under exhaustive_spaces were covered '
        'completely; the Hypothesis part (graphs up to 10 nodes) is sampled')


if __name__ == '__main__':
    if '--orders' in sys.argv:
        print(json.dumps(_orders_for(json.loads(sys.stdin.read()))))
