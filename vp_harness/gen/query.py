"""G-QUERY: type-directed EdgeQL query generator over an introspected schema.

The generator is a set of mutually recursive functions that take a Hypothesis
`draw` and produce query *text* (rendered here, not by the repository's
printer) together with bookkeeping: features used, parameters declared,
syntactic ground truth (does the text contain DML, and where).

Value kinds: 'int' (int64), 'str', 'bool', ('obj', TypeName).  Collections
(tuples, arrays) are produced at dedicated places only.

Options (QOpts): dml, params, globals_, funcs, aliases, toy (restrict to what
edb/tools/toy_eval_model.py evaluates), shapes, group.
"""
from __future__ import annotations

import dataclasses
from typing import Any, Optional

SCHEMA_SDL = '''
module default {
    scalar type Color extending enum<Red, Green, Blue>;
    scalar type Shade extending Color;
    abstract type Named {
        required name: str { constraint exclusive; }
    }
    abstract type Dated { year: int64; }
    type User extending Named {
        email: str { constraint exclusive; }
        age: int64;
        multi nick: str;
        multi friends: User { weight: int64; }
        best: User;
        multi deck: Card { count: int64; }
        multi awards: Award { constraint exclusive; }
        avatar: Card { text: str; }
        color: Color;
        shade: Shade;
        tags: array<str>;
        pos: tuple<x: int64, y: int64>;
        property shout := .name ++ '!';
        property nfriends := count(.friends);
        multi link fof := .friends.friends;
        multi link pricey := (select .deck filter .cost > 2);
    }
    type Card extending Named {
        required cost: int64;
        element: str;
        multi link owners := .<deck[is User];
        property good := .cost > 1;
    }
    type SpecialCard extending Card { power: int64; }
    type Award extending Named {
        link winner := .<awards[is User];
    }
    type Pet extending Named { multi nick: str; age: int64; owner: User; }
    type Event extending Named, Dated { multi guests: User; }
    type Note extending Dated {
        required body: str;
        about: Named;
    }
    alias Adults := (select User filter .age >= 18);
    global cur_name: str;
    global page: int64 { default := 10; };
    global cur_user := (select User filter .name = global cur_name);
    function twice(x: int64) -> int64 using (x * 2);
    function mk_note(b: str) -> Note using (insert Note { body := b });
    function bump_all() -> set of Card using (update Card set { cost := .cost + 1 });
};
'''

SCALAR_KIND = {'std::int64': 'int', 'std::str': 'str', 'std::bool': 'bool'}


@dataclasses.dataclass
class Ptr:
    name: str
    is_link: bool
    target: Any            # 'int'/'str'/'bool'/('obj', T)/('other', typename)
    multi: bool
    required: bool
    computed: bool
    exclusive: bool
    linkprops: list        # [(name, kind)]
    owner: str


@dataclasses.dataclass
class SchemaInfo:
    types: dict            # name -> dict(abstract, bases, ancestors, descendants, ptrs: {name: Ptr})
    concrete: list

    def ptrs(self, t):
        return self.types[t]['ptrs']

    def subtypes(self, t, concrete_only=False):
        out = [t] + self.types[t]['descendants']
        if concrete_only:
            out = [x for x in out if not self.types[x]['abstract']]
        return out


def introspect(schema) -> SchemaInfo:
    from edb.schema import objtypes as s_objtypes, links as s_links
    from edb.schema import name as sn
    from edb.edgeql import qltypes
    types = {}
    objs = [o for o in schema.get_objects(type=s_objtypes.ObjectType, exclude_stdlib=True)
            if o.get_name(schema).module == 'default'
            and not o.is_view(schema) and not o.is_compound_type(schema)]
    names = {o: o.get_name(schema).name for o in objs}
    for o in objs:
        ptrs = {}
        for pn, p in o.get_pointers(schema).items(schema):
            pname = str(pn)
            if pname in ('id', '__type__'):
                continue
            tgt = p.get_target(schema)
            is_link = isinstance(p, s_links.Link)
            if is_link:
                if tgt not in names:
                    continue
                target = ('obj', names[tgt])
            else:
                tn = str(tgt.get_name(schema))
                target = SCALAR_KIND.get(tn, ('other', tn))
            lps = []
            if is_link:
                for lpn, lp in p.get_pointers(schema).items(schema):
                    if str(lpn) in ('source', 'target'):
                        continue
                    ltn = str(lp.get_target(schema).get_name(schema))
                    lps.append((str(lpn), SCALAR_KIND.get(ltn, ('other', ltn))))
            ptrs[pname] = Ptr(
                name=pname, is_link=is_link, target=target,
                multi=p.get_cardinality(schema) is qltypes.SchemaCardinality.Many,
                required=bool(p.get_required(schema)),
                computed=p.get_expr(schema) is not None or bool(p.get_computable(schema)),
                exclusive=bool(p.is_exclusive(schema)) if hasattr(p, 'is_exclusive') else False,
                linkprops=lps, owner=names[o])
        types[names[o]] = dict(
            abstract=bool(o.get_abstract(schema)),
            bases=[names[b] for b in o.get_bases(schema).objects(schema) if b in names],
            ancestors=[names[b] for b in o.get_ancestors(schema).objects(schema) if b in names],
            descendants=[names[d] for d in o.descendants(schema) if d in names],
            ptrs=ptrs)
    for t in types.values():
        t['descendants'].sort()
    return SchemaInfo(types=dict(sorted(types.items())),
                      concrete=sorted(n for n, t in types.items() if not t['abstract']))


@dataclasses.dataclass
class QOpts:
    dml: bool = False
    params: bool = False
    globals_: bool = False
    funcs: bool = False
    aliases: bool = False
    toy: bool = False
    shapes: bool = True
    group: bool = False
    collections: bool = True
    max_depth: int = 4
    #: schema-specific extra sources: {type name: [expression text]}, {kind: [expression text]}
    extra_obj: Optional[dict] = None
    extra_scalar: Optional[dict] = None


class Gen:
    def __init__(self, draw, info: SchemaInfo, opts: QOpts):
        from hypothesis import strategies as st
        self.st = st
        self.draw = draw
        self.info = info
        self.o = opts
        self.n = 0
        self.features: set[str] = set()
        self.params: dict[str, str] = {}     # name -> cast text
        self.dml_paths: list[str] = []       # nesting-context path of every DML node emitted
        self.ctx: list[str] = ['top']
        self.uses_globals: set[str] = set()

    # -- helpers -------------------------------------------------------
    def i(self, lo, hi):
        return self.draw(self.st.integers(lo, hi))

    def pick(self, seq):
        seq = list(seq)
        return seq[self.i(0, len(seq) - 1)]

    def fresh(self, p='v'):
        self.n += 1
        return f'{p}{self.n}'

    def f(self, name):
        self.features.add(name)

    class _Ctx:
        def __init__(self, g, name):
            self.g, self.name = g, name

        def __enter__(self):
            self.g.ctx.append(self.name)

        def __exit__(self, *a):
            self.g.ctx.pop()

    def within(self, name):
        return Gen._Ctx(self, name)

    def usable_ptrs(self, t, *, links=None, kind=None, allow_computed=True):
        out = []
        for p in self.info.ptrs(t).values():
            if isinstance(p.target, tuple) and p.target[0] == 'other':
                continue
            if links is True and not p.is_link:
                continue
            if links is False and p.is_link:
                continue
            if kind is not None and p.target != kind:
                continue
            if not allow_computed and p.computed:
                continue
            out.append(p)
        return out

    # -- scalar expressions -----------------------------------------------
    def scalar(self, kind, env, prefix, depth):
        """a (possibly multi / empty) set expression of scalar `kind`"""
        d = depth
        choices = ['lit', 'lit']
        if prefix and self.usable_ptrs(prefix, links=False, kind=kind):
            choices += ['pprop', 'pprop', 'pprop']
        vars_ = [v for v, k in env if k == kind]
        if vars_:
            choices += ['var', 'var']
        objvars = [(v, k[1]) for v, k in env if isinstance(k, tuple) and k[0] == 'obj'
                   and self.usable_ptrs(k[1], links=False, kind=kind)]
        if objvars:
            choices += ['vprop', 'vprop', 'vprop']
        lobjvars = [(v, p, p2) for v, k in env if isinstance(k, tuple) and k[0] == 'obj'
                    for p in self.usable_ptrs(k[1], links=True)
                    for p2 in self.usable_ptrs(p.target[1], links=False, kind=kind)]
        if lobjvars:
            choices += ['vlinkprop', 'vlinkprop']
        if d > 0:
            choices += ['objprop', 'binop', 'coalesce', 'ifelse', 'setlit']
            if kind == 'int':
                choices += ['count', 'count', 'agg', 'len', 'lprop']
                if self.o.funcs:
                    choices.append('fn')
            if kind == 'str':
                choices += ['cast', 'concat']
            if kind == 'bool':
                choices += ['cmp', 'cmp', 'exists', 'exists', 'in', 'not', 'opteq']
            if self.o.params:
                choices.append('param')
            if self.o.globals_ and kind in ('int', 'str'):
                choices += ['global', 'global']
            if self.o.extra_scalar and self.o.extra_scalar.get(kind):
                choices += ['extra', 'extra']
            choices.append('subq')
        c = self.pick(choices)
        if c == 'lit':
            if kind == 'int':
                return str(self.i(0, 4))
            if kind == 'str':
                return "'" + self.pick(['a', 'b', 'u1', 'c1', 'x']) + "'"
            return self.pick(['true', 'false'])
        if c == 'pprop':
            p = self.pick(self.usable_ptrs(prefix, links=False, kind=kind))
            self.f('partial-path')
            return f'.{p.name}'
        if c == 'var':
            return self.pick(vars_)
        if c == 'vprop':
            v, t = self.pick(objvars)
            p = self.pick(self.usable_ptrs(t, links=False, kind=kind))
            return f'{v}.{p.name}'
        if c == 'vlinkprop':
            v, p, p2 = self.pick(lobjvars)
            self.f('var-link')
            return f'{v}.{p.name}.{p2.name}'
        if c == 'objprop':
            cands = [t for t in self.info.types if self.usable_ptrs(t, links=False, kind=kind)]
            if not cands:
                return {'int': '1', 'str': "'a'", 'bool': 'true'}[kind]
            t = self.pick(cands)
            p = self.pick(self.usable_ptrs(t, links=False, kind=kind))
            src = self.objset(t, env, prefix, d - 1)
            return f'({src}).{p.name}'
        if c == 'lprop':
            # link property via a path
            cands = [(t, p) for t in self.info.concrete for p in self.usable_ptrs(t, links=True)
                     if any(k == 'int' for _, k in p.linkprops) and not p.computed]
            if not cands:
                return str(self.i(0, 4))
            t, p = self.pick(cands)
            lp = self.pick([n for n, k in p.linkprops if k == 'int'])
            self.f('linkprop')
            return f'{t}.{p.name}@{lp}'
        if c == 'binop':
            if kind == 'int':
                op = self.pick(['+', '-', '*'])
                return f'({self.scalar("int", env, prefix, d - 1)} {op} {self.scalar("int", env, prefix, d - 1)})'
            if kind == 'str':
                return f'({self.scalar("str", env, prefix, d - 1)} ++ {self.scalar("str", env, prefix, d - 1)})'
            op = self.pick(['and', 'or'])
            return f'({self.scalar("bool", env, prefix, d - 1)} {op} {self.scalar("bool", env, prefix, d - 1)})'
        if c == 'concat':
            return f'({self.scalar("str", env, prefix, d - 1)} ++ {self.scalar("str", env, prefix, d - 1)})'
        if c == 'coalesce':
            self.f('coalesce')
            return f'({self.scalar(kind, env, prefix, d - 1)} ?? {self.scalar(kind, env, prefix, d - 1)})'
        if c == 'ifelse':
            self.f('if-else')
            return (f'({self.scalar(kind, env, prefix, d - 1)} if {self.scalar("bool", env, prefix, d - 1)} '
                    f'else {self.scalar(kind, env, prefix, d - 1)})')
        if c == 'setlit':
            n = self.i(0, 3)
            if n == 0:
                cast = {'int': 'int64', 'str': 'str', 'bool': 'bool'}[kind]
                self.f('empty-set')
                return f'<{cast}>{{}}'
            self.f('set-literal')
            return '{' + ', '.join(self.scalar(kind, env, prefix, d - 1) for _ in range(n)) + '}'
        if c == 'count':
            self.f('count')
            return f'count({self.anyset(env, prefix, d - 1)})'
        if c == 'agg':
            fn = self.pick(['sum', 'min', 'max'])
            self.f('aggregate')
            return f'{fn}({self.scalar("int", env, prefix, d - 1)})'
        if c == 'len':
            return f'len({self.scalar("str", env, prefix, d - 1)})'
        if c == 'fn':
            self.f('user-function')
            return f'twice({self.scalar("int", env, prefix, d - 1)})'
        if c == 'cast':
            self.f('cast')
            return f'<str>{self.scalar("int", env, prefix, d - 1)}'
        if c == 'cmp':
            k = self.pick(['int', 'int', 'str'])
            op = self.pick(['=', '!=', '<', '>=', '=']) if k == 'int' else self.pick(['=', '!='])
            return f'({self.scalar(k, env, prefix, d - 1)} {op} {self.scalar(k, env, prefix, d - 1)})'
        if c == 'opteq':
            k = self.pick(['int', 'str'])
            self.f('opt-eq')
            return f'({self.scalar(k, env, prefix, d - 1)} ?= {self.scalar(k, env, prefix, d - 1)})'
        if c == 'exists':
            self.f('exists')
            return f'exists {self.anyset(env, prefix, d - 1, paren=True)}'
        if c == 'in':
            k = self.pick(['int', 'str'])
            self.f('in')
            return f'({self.scalar(k, env, prefix, d - 1)} in {self.scalar(k, env, prefix, d - 1)})'
        if c == 'not':
            return f'(not {self.scalar("bool", env, prefix, d - 1)})'
        if c == 'param':
            cast = {'int': 'int64', 'str': 'str', 'bool': 'bool'}[kind]
            opt = self.i(0, 2) == 0
            name = self.pick(['p0', 'p1', 'p2', 'p3'])
            text = f'<optional {cast}>' if opt else f'<{cast}>'
            if name in self.params and self.params[name] != text:
                name = self.fresh('q')
            self.params[name] = text
            self.f('param')
            return f'{text}${name}'
        if c == 'extra':
            x = self.pick(self.o.extra_scalar[kind])
            self.f('extra:' + x.strip('()').split('(')[0].split()[-1])
            return x
        if c == 'global':
            g = 'page' if kind == 'int' else 'cur_name'
            self.uses_globals.add(g)
            self.f('global')
            return f'global {g}'
        if c == 'subq':
            self.f('scalar-subquery')
            with self.within('subquery'):
                inner = self.scalar(kind, env, prefix, d - 1)
                lim = f' limit {self.i(0, 2)}' if self.i(0, 2) == 0 else ''
                if lim:
                    self.f('limit')
                return f'(select {inner}{lim})'
        raise AssertionError(c)

    def single_scalar(self, kind, env, prefix, depth):
        """an expression that is statically at most one element (for DML assignments
        to single pointers and for LIMIT)"""
        c = self.i(0, 3)
        if c == 0 and prefix:
            ps = [p for p in self.usable_ptrs(prefix, links=False, kind=kind) if not p.multi]
            if ps:
                return f'.{self.pick(ps).name}'
        if c == 1 and kind == 'int' and depth > 0:
            return f'count({self.anyset(env, prefix, depth - 1)})'
        if c == 2 and self.o.params:
            cast = {'int': 'int64', 'str': 'str', 'bool': 'bool'}[kind]
            name = self.pick(['p0', 'p1', 'p2', 'p3'])
            text = f'<{cast}>'
            if name in self.params and self.params[name] != text:
                name = self.fresh('q')
            self.params[name] = text
            self.f('param')
            return f'{text}${name}'
        if kind == 'int':
            return str(self.i(0, 4))
        if kind == 'str':
            return "'" + self.pick(['a', 'b', 'n1', 'n2']) + "'"
        return self.pick(['true', 'false'])

    # -- object sets -------------------------------------------------------
    def objset(self, t, env, prefix, depth):
        """a set expression whose elements are objects of type `t` (or subtypes)"""
        d = depth
        info = self.info
        choices = ['ref', 'ref']
        subs = info.types[t]['descendants']
        if subs:
            choices.append('subref')
        vars_ = [v for v, k in env if isinstance(k, tuple) and k[0] == 'obj'
                 and (k[1] == t or k[1] in subs)]
        if vars_:
            choices += ['var', 'var', 'var', 'var']
        lvars = [(v, k[1], p) for v, k in env if isinstance(k, tuple) and k[0] == 'obj'
                 for p in self.usable_ptrs(k[1], links=True)
                 if p.target[1] == t or p.target[1] in subs]
        if lvars:
            choices += ['varlink', 'varlink', 'varlink']
        if prefix:
            pl = [p for p in self.usable_ptrs(prefix, links=True)
                  if p.target[1] == t or p.target[1] in subs]
            if pl:
                choices += ['plink', 'plink']
        fwd = [(s, p) for s in info.types for p in self.usable_ptrs(s, links=True)
               if p.owner == s and (p.target[1] == t or p.target[1] in subs)]
        back = [(s, p) for s in info.concrete for p in self.usable_ptrs(s, links=True, allow_computed=False)
                if p.owner == s and (p.target[1] == t or t in info.types[p.target[1]]['descendants']
                                     or p.target[1] in subs)]
        sup = [a for a in info.types[t]['ancestors']]
        if d > 0:
            choices += ['filter', 'filter', 'union', 'distinct', 'ifelse', 'coalesce', 'with', 'for',
                        'limit', 'detached']
            if fwd:
                choices += ['link', 'link']
            if back:
                choices += ['backlink', 'backlink']
            if sup:
                choices += ['intersect', 'intersect']
            if self.o.globals_ and t == 'User':
                choices.append('global')
            if self.o.aliases and t == 'User':
                choices.append('alias')
            if self.o.extra_obj and self.o.extra_obj.get(t):
                choices += ['extra', 'extra']
            if self.o.dml and not info.types[t]['abstract']:
                choices += ['dml', 'dml']
            if self.o.dml and self.o.funcs and t in ('Note', 'Card'):
                choices.append('dmlfn')
        c = self.pick(choices)
        if c == 'ref':
            return t
        if c == 'subref':
            self.f('subtype-ref')
            return self.pick(subs)
        if c == 'var':
            return self.pick(vars_)
        if c == 'varlink':
            v, _vt, p = self.pick(lvars)
            self.f('var-link')
            return f'{v}.{p.name}'
        if c == 'plink':
            p = self.pick(pl)
            self.f('partial-path')
            return f'.{p.name}'
        if c == 'link':
            s, p = self.pick(fwd)
            self.f('link' + ('-computed' if p.computed else ''))
            r = f'({self.objset(s, env, prefix, d - 1)}).{p.name}'
            if p.target[1] != t and p.target[1] not in subs:
                r += f'[is {t}]'
            return r
        if c == 'backlink':
            s, p = self.pick(back)
            # objects of type s reached backwards from a set of p's target type
            self.f('backlink')
            tt = p.target[1]
            src = self.objset(tt, env, prefix, d - 1)
            want = t if (t == s or t in info.types[s]['ancestors']) else None
            if want is None:
                return t
            return f'({src}).<{p.name}[is {s}]'
        if c == 'intersect':
            a = self.pick(sup)
            self.f('type-intersection')
            return f'({self.objset(a, env, prefix, d - 1)})[is {t}]'
        if c == 'filter':
            self.f('filter')
            src = self.objset(t, env, prefix, d - 1)
            with self.within('filter'):
                cond = self.filter_cond(t, env, d - 1)
            tail = ''
            if self.i(0, 3) == 0:
                ps = [p for p in self.usable_ptrs(t, links=False) if not p.multi]
                if ps:
                    tail = f' order by .{self.pick(ps).name}'
                    self.f('order-by')
            return f'(select {src} filter {cond}{tail})'
        if c == 'limit':
            self.f('limit')
            src = self.objset(t, env, prefix, d - 1)
            off = f' offset {self.i(0, 2)}' if self.i(0, 3) == 0 else ''
            return f'(select {src}{off} limit {self.i(0, 2)})'
        if c == 'union':
            self.f('union')
            return f'({self.objset(t, env, prefix, d - 1)} union {self.objset(t, env, prefix, d - 1)})'
        if c == 'distinct':
            self.f('distinct')
            return f'(distinct {self.objset(t, env, prefix, d - 1)})'
        if c == 'ifelse':
            self.f('if-else')
            return (f'({self.objset(t, env, prefix, d - 1)} if {self.scalar("bool", env, prefix, d - 1)} '
                    f'else {self.objset(t, env, prefix, d - 1)})')
        if c == 'coalesce':
            self.f('coalesce')
            return f'({self.objset(t, env, prefix, d - 1)} ?? {self.objset(t, env, prefix, d - 1)})'
        if c == 'detached':
            self.f('detached')
            return f'(detached {t})'
        if c == 'with':
            self.f('with')
            v = self.fresh('w')
            with self.within('with'):
                k, bound = self.binding(env, prefix, d - 1)
            body = self.objset(t, env + [(v, k)], prefix, d - 1)
            return f'(with {v} := {bound} select {body})'
        if c == 'for':
            self.f('for')
            v = self.fresh('x')
            xs = [p for p in self.usable_ptrs(t, links=False) if p.exclusive and p.target == 'str' and not p.multi]
            if xs and self.i(0, 2) == 0:
                # look objects up by an exclusive key taken from the iterator, possibly under another,
                # independent FOR
                p = self.pick(xs)
                self.f('for-key-lookup')
                keys = "{'" + "', '".join(self.pick(['a', 'b', 'n1', 'n2', 'u1', 'c1']) for _ in range(self.i(1, 3))) + "'}"
                inner = f'(for {v} in {keys} union (select {t} filter .{p.name} = {v}))'
                if self.i(0, 1):
                    w = self.fresh('x')
                    self.f('nested-for')
                    return f'(for {w} in {{1, 2}} union ({inner}))'
                return inner
            k, it = self.binding(env, prefix, d - 1)
            with self.within('for'):
                body = self.objset(t, env + [(v, k)], prefix, d - 1)
            return f'(for {v} in {it} union ({body}))'
        if c == 'global':
            self.uses_globals.add('cur_user')
            self.f('global-computed')
            return 'global cur_user'
        if c == 'extra':
            x = self.pick(self.o.extra_obj[t])
            self.f('extra:' + x.strip('()').split('(')[0].split()[0])
            return x
        if c == 'alias':
            self.f('schema-alias')
            return 'Adults'
        if c == 'dml':
            return self.dml(t, env, prefix, d - 1)
        if c == 'dmlfn':
            self.f('dml-function')
            self.dml_paths.append('/'.join(self.ctx) + '/function')
            if t == 'Note':
                return f'mk_note({self.single_scalar("str", env, prefix, d - 1)})'
            return 'bump_all()'
        raise AssertionError(c)

    def filter_cond(self, t, env, depth):
        c = self.i(0, 5)
        ps = [p for p in self.usable_ptrs(t, links=False) if not p.multi]
        xo = [p for p in ps if p.exclusive and not p.required and not p.computed]
        if xo and self.i(0, 5) == 0:
            # optional exclusive pointer compared with ?= to something that can be empty
            p = self.pick(xo)
            cast = {'int': 'int64', 'str': 'str', 'bool': 'bool'}[p.target]
            self.f('filter-exclusive')
            self.f('opt-eq')
            self.f('empty-set')
            rhs = self.pick([f'<{cast}>{{}}', f'<{cast}>{{}}',
                             f'(select {self.single_scalar(p.target, env, None, 0)} limit 0)'])
            if self.i(0, 2) == 0 and len(ps) > 1:
                other = self.pick([q for q in ps if q is not p])
                return f'.{p.name} ?= {rhs} and .{other.name} ?= .{other.name}'
            return f'.{p.name} ?= {rhs}'
        sl = [p for p in self.usable_ptrs(t, links=True) if not p.multi]
        if sl and self.i(0, 7) == 0:
            # equality on a single link (possibly to the same type)
            p = self.pick(sl)
            self.f('filter-link-eq')
            tgt = p.target[1]
            src = self.objset(tgt, env, None, max(depth - 1, 0))
            if src == tgt:
                src = f'detached {tgt}'
            return f'.{p.name} = (select {src} limit 1)'
        if c <= 2 and ps:
            p = self.pick(ps)
            if p.exclusive:
                self.f('filter-exclusive')
            op = self.pick(['=', '=', '=', '!=', '?=']) if p.target != 'bool' else '='
            if op == '?=' and self.i(0, 2) == 0:
                cast = {'int': 'int64', 'str': 'str', 'bool': 'bool'}[p.target]
                self.f('empty-set')
                self.f('opt-eq')
                return f'.{p.name} ?= <{cast}>{{}}'
            rhs = self.single_scalar(p.target, env, None, depth) if self.i(0, 1) else \
                self.scalar(p.target, env, None, max(depth - 1, 0))
            return f'.{p.name} {op} {rhs}'
        return self.scalar('bool', env, t, depth)

    def binding(self, env, prefix, depth):
        """-> (kind, text) of a set to bind in WITH / iterate in FOR"""
        c = self.i(0, 3)
        if c == 0:
            return 'int', '{' + ', '.join(str(self.i(0, 3)) for _ in range(self.i(1, 3))) + '}'
        if c == 1:
            k = self.pick(['int', 'str'])
            return k, f'({self.scalar(k, env, prefix, depth)})'
        t = self.pick(self.info.concrete)
        return ('obj', t), f'({self.objset(t, env, prefix, depth)})'

    def anyset(self, env, prefix, depth, paren=False):
        if self.o.params and self.o.collections and self.i(0, 11) == 0:
            # tuple-typed parameters (decoded into several SQL parameters), used or only bound
            name = self.pick(['t0', 't1'])
            text = self.pick(['<tuple<int64, str>>', '<array<tuple<int64, str>>>', '<tuple<a: int64, b: bool>>'])
            if name in self.params and self.params[name] != text:
                name = self.fresh('t')
            self.params[name] = text
            self.f('tuple-param')
            c2 = self.i(0, 2)
            if c2 == 0:
                return f'({text}${name})'
            if c2 == 1:
                return f'(with tp := {text}${name} select {self.scalar("int", env, prefix, max(depth - 1, 0))})'
            if text.startswith('<array'):
                return f'(len({text}${name}))'
            return f'(({text}${name}).0)'
        c = self.i(0, 3)
        if c == 3:
            # a union of two object sets of arbitrary (possibly overlapping) types
            a, b = self.pick(list(self.info.types)), self.pick(list(self.info.types))
            self.f('mixed-union')
            d2 = max(depth - 1, 0)
            if self.i(0, 1):
                r = f'({self.objset(a, env, prefix, d2)} union {self.objset(b, env, prefix, d2)})'
            else:
                r = f'{{{self.objset(a, env, prefix, d2)}, {self.objset(b, env, prefix, d2)}}}'
            return r
        if c == 0:
            r = self.scalar(self.pick(['int', 'str']), env, prefix, depth)
        else:
            r = self.objset(self.pick(list(self.info.types)), env, prefix, depth)
        return f'({r})' if paren else r

    # -- DML ----------------------------------------------------------------
    def dml(self, t, env, prefix, depth):
        kind = self.pick(['insert', 'insert', 'update', 'delete'])
        self.dml_paths.append('/'.join(self.ctx) + '/' + kind)
        self.f('dml-' + kind)
        with self.within(kind):
            if kind == 'insert':
                els = []
                for p in self.info.ptrs(t).values():
                    if p.computed or (isinstance(p.target, tuple) and p.target[0] == 'other'):
                        continue
                    if p.name == 'name':
                        els.append(f"name := 'n{self.i(0, 99)}' ++ <str>random()" if not self.o.toy
                                   else f"name := 'n{self.i(0, 99)}'")
                        continue
                    if not p.required and self.i(0, 2) > 0:
                        continue
                    if p.is_link:
                        with self.within('shape'):
                            src = self.objset(p.target[1], env, None, max(depth - 1, 0))
                        if not p.multi:
                            src = f'(select {src} limit 1)'
                        els.append(f'{p.name} := {src}')
                    elif p.multi:
                        els.append(f'{p.name} := {self.scalar(p.target, env, None, max(depth - 1, 0))}')
                    else:
                        els.append(f'{p.name} := {self.single_scalar(p.target, env, None, max(depth - 1, 0))}')
                text = f'insert {t} {{ ' + ', '.join(els) + ' }'
                if t == 'User' and self.i(0, 2) == 0:
                    self.f('unless-conflict')
                    if self.i(0, 1):
                        with self.within('else'):
                            other = self.objset('User', env, None, max(depth - 1, 0)) if self.i(0, 1) else 'User'
                        text += f' unless conflict on .email else (select {other} limit 1)' \
                            if other != 'User' else ' unless conflict on .email else (select User)'
                    else:
                        text += ' unless conflict'
                return f'({text})'
            if kind == 'update':
                ps = [p for p in self.info.ptrs(t).values() if not p.computed and p.name != 'name'
                      and not (isinstance(p.target, tuple) and p.target[0] == 'other')]
                p = self.pick(ps) if ps else None
                flt = ''
                if self.i(0, 1):
                    flt = f' filter {self.filter_cond(t, env, max(depth - 1, 0))}'
                if p is None:
                    return f'(update {t}{flt} set {{ }})'
                if p.is_link:
                    with self.within('shape'):
                        src = self.objset(p.target[1], env, None, max(depth - 1, 0))
                    if not p.multi:
                        src = f'(select {src} limit 1)'
                    op = self.pick([':=', '+=', '-=']) if p.multi else ':='
                    val = f'{p.name} {op} {src}'
                elif p.multi:
                    val = f'{p.name} := {self.scalar(p.target, env, t, max(depth - 1, 0))}'
                else:
                    val = f'{p.name} := {self.single_scalar(p.target, env, t, max(depth - 1, 0))}'
                return f'(update {t}{flt} set {{ {val} }})'
            flt = f' filter {self.filter_cond(t, env, max(depth - 1, 0))}' if self.i(0, 2) else ''
            return f'(delete {t}{flt})'

    # -- shapes --------------------------------------------------------------
    def shape(self, t, env, depth):
        els = []
        ps = self.usable_ptrs(t)
        for p in ps:
            if self.i(0, 2) != 0:
                continue
            if p.is_link and depth > 0 and self.i(0, 1):
                self.f('nested-shape')
                with self.within('shape'):
                    sub = self.shape(p.target[1], env, depth - 1)
                extra = ''
                lps = [n for n, k in p.linkprops if not isinstance(k, tuple)]
                if lps and self.i(0, 1):
                    self.f('linkprop-in-shape')
                    sub = sub[:-1].rstrip() + (', ' if sub.strip() != '{}' and len(sub) > 3 else ' ') + f'@{self.pick(lps)} }}'
                if self.i(0, 3) == 0:
                    extra = f' filter {self.filter_cond(p.target[1], env, 0)}'
                    sub = sub + extra
                els.append(f'{p.name}: {sub}')
            else:
                els.append(p.name)
        n_comp = self.i(0, 2) if depth > 0 else 0
        for _ in range(n_comp):
            nm = self.fresh('c')
            self.f('computed-shape-element')
            with self.within('shape'):
                if self.i(0, 1):
                    k = self.pick(['int', 'str', 'bool'])
                    els.append(f'{nm} := {self.scalar(k, env, t, depth - 1)}')
                else:
                    tt = self.pick(list(self.info.types))
                    inner = self.objset(tt, env, t, depth - 1)
                    if self.i(0, 1):
                        inner = f'{inner} {self.shape(tt, env, 0)}' if inner.isidentifier() else \
                            f'({inner}) {self.shape(tt, env, 0)}'
                    els.append(f'{nm} := {inner}')
        if not els:
            els = ['id']
        return '{ ' + ', '.join(els) + ' }'

    # -- statements ------------------------------------------------------------
    def statement(self):
        """-> query text (one top-level statement)"""
        d = self.i(1, self.o.max_depth)
        forms = ['select-obj', 'select-obj', 'select-obj', 'select-scalar', 'select-scalar', 'select-any']
        if self.o.collections:
            forms += ['select-tuple', 'select-array']
        forms += ['for', 'with']
        if self.o.group:
            forms.append('group')
        if self.o.dml:
            forms += ['dml', 'dml', 'with-dml', 'with-dml', 'for-dml']
            if self.o.group:
                forms.append('with-dml-group')
        if self.o.globals_:
            forms.append('globals')
        form = self.pick(forms)
        self.f('stmt:' + form)
        env: list = []
        if form == 'select-obj':
            t = self.pick(list(self.info.types))
            src = self.objset(t, env, None, d - 1)
            text = f'select {src}'
            if self.o.shapes and self.i(0, 2) > 0:
                self.f('shape')
                if not src.isidentifier():
                    text = f'select ({src})'
                text += ' ' + self.shape(t, env, min(d, 2))
            if self.i(0, 2) == 0:
                with self.within('filter'):
                    text += f' filter {self.filter_cond(t, env, d - 1)}'
                self.f('filter')
            if self.i(0, 3) == 0:
                ps = [p for p in self.usable_ptrs(t, links=False) if not p.multi]
                if ps:
                    text += f' order by .{self.pick(ps).name}'
                    self.f('order-by')
            if self.i(0, 3) == 0:
                text += f' limit {self.i(0, 2)}'
                self.f('limit')
            return text
        if form == 'select-any':
            return f'select {self.anyset(env, None, d, paren=True)}'
        if form == 'select-scalar':
            k = self.pick(['int', 'str', 'bool'])
            return f'select {self.scalar(k, env, None, d)}'
        if form == 'select-tuple':
            self.f('tuple')
            parts = [self.anyset(env, None, d - 1, paren=True) for _ in range(self.i(2, 3))]
            if self.i(0, 2) == 0:
                self.f('named-tuple')
                return 'select (' + ', '.join(f'f{i} := {p}' for i, p in enumerate(parts)) + ')'
            return 'select (' + ', '.join(parts) + ')'
        if form == 'select-array':
            self.f('array')
            k = self.pick(['int', 'str'])
            c = self.i(0, 2)
            if c == 0:
                return f'select array_agg({self.scalar(k, env, None, d - 1)})'
            if c == 1:
                return f'select [{self.single_scalar(k, env, None, d - 1)}, {self.single_scalar(k, env, None, d - 1)}]'
            return f'select array_unpack([{self.single_scalar(k, env, None, 0)}, {self.single_scalar(k, env, None, 0)}])'
        if form == 'for':
            self.f('for')
            v = self.fresh('x')
            k, it = self.binding(env, None, d - 1)
            with self.within('for'):
                body = self.anyset(env + [(v, k)], None, d - 1, paren=True)
            return f'for {v} in {it} union {body}'
        if form == 'with':
            self.f('with')
            v = self.fresh('w')
            with self.within('with'):
                k, b = self.binding(env, None, d - 1)
            body = self.anyset(env + [(v, k)], None, d - 1, paren=True)
            return f'with {v} := {b} select {body}'
        if form == 'group':
            self.f('group')
            t = self.pick([x for x in self.info.concrete
                           if [p for p in self.usable_ptrs(x, links=False) if not p.multi]])
            p = self.pick([p for p in self.usable_ptrs(t, links=False) if not p.multi])
            return f'group {t} by .{p.name}'
        if form == 'dml':
            t = self.pick(self.info.concrete)
            text = self.dml(t, env, None, d - 1)
            return text[1:-1]
        if form == 'globals':
            parts = [self.pick(['global page', 'global cur_name', 'global cur_user.name',
                                'global page', 'global cur_name'])
                     for _ in range(self.i(2, 3))]
            for p in parts:
                self.uses_globals.add(p.split()[1].split('.')[0])
            if self.i(0, 1):
                parts.insert(self.i(0, len(parts)), self.anyset(env, None, d - 1, paren=True))
            self.f('global')
            self.f('tuple')
            if self.i(0, 2) == 0:
                t = self.pick(self.info.concrete)
                nm = self.fresh('c')
                return (f'select {t} {{ {nm} := {parts[0]} }} filter '
                        f'{self.scalar("bool", env, t, 1)} or exists ({parts[1]})')
            return 'select (' + ', '.join(parts) + ')'
        if form == 'with-dml-group':
            t = self.pick(self.info.concrete)
            v = self.fresh('w')
            with self.within('with'):
                b = self.dml(t, env, None, d - 1)
            t2 = self.pick([x for x in self.info.concrete
                            if [p for p in self.usable_ptrs(x, links=False) if not p.multi]])
            p = self.pick([p for p in self.usable_ptrs(t2, links=False) if not p.multi])
            self.f('with')
            self.f('group')
            g = f'with {v} := {b} group {t2} by .{p.name}'
            c = self.i(0, 2)
            if c == 0:
                return g
            if c == 1:
                return f'select count(({g}))'
            return f'select (select ({g})) {{ key: {{ {p.name} }} }}'
        if form == 'with-dml':
            t = self.pick(self.info.concrete)
            v = self.fresh('w')
            with self.within('with'):
                b = self.dml(t, env, None, d - 1)
            env2 = env + [(v, ('obj', t))]
            self.f('with')
            if self.i(0, 1):
                parts = [self.anyset(env2, None, max(d - 1, 1), paren=True) for _ in range(self.i(2, 3))]
                self.f('tuple')
                return f'with {v} := {b} select (' + ', '.join(parts) + ')'
            body = self.anyset(env2, None, d - 1, paren=True)
            return f'with {v} := {b} select {body}'
        if form == 'for-dml':
            t = self.pick(self.info.concrete)
            v = self.fresh('x')
            k, it = self.binding(env, None, d - 1)
            with self.within('for'):
                body = self.dml(t, env + [(v, k)], None, d - 1)
            self.f('for')
            return f'for {v} in {it} union {body}'
        raise AssertionError(form)


def query_strategy(info: SchemaInfo, opts: QOpts):
    """-> strategy of dict(text, features, params, dml_paths, globals)"""
    from hypothesis import strategies as st

    @st.composite
    def q(draw):
        g = Gen(draw, info, opts)
        text = g.statement()
        return dict(text=text, features=sorted(g.features), params=dict(g.params),
                    dml_paths=list(g.dml_paths), globals=sorted(g.uses_globals))
    return q()
