"""C17 — compiler workers always compile against the caller's current state.

Harness: the real `AbstractPool.compile / compile_in_tx / compile_notebook /
compile_sql`, the real `BaseWorker.call`, the real `WorkerQueue`, and one
private instance of the real `compiler_pool/worker.py` module per fake worker
(its globals DBS / GLOBAL_SCHEMA / INSTANCE_CONFIG / LAST_STATE are the
worker-side truth); only the process transport and the compiler itself are
replaced (the compiler by a recorder).

Generated: request histories over 1-3 databases and 1-3 workers; every request
carries a (user schema, global schema, reflection cache, database config,
instance config) drawn from small pools of *identity-stable* versions (the
pool decides what to transmit by `is`), with A->B->A reuse, fresh equal copies,
empty (falsy) maps; faults: worker-side compile error, state transfer that
fails to unpickle for each part x exception type.

Oracle (differential on arguments + belief = truth): what the recorder
receives equals, by value, what the caller passed; after every request the
server's belief about the worker equals what the worker module really holds.
"""
from __future__ import annotations

import asyncio
import importlib.util
import pickle
import sys
import traceback
import types

from vp_harness import env  # noqa: F401
from vp_harness import core

ID = 'C17'
LEVEL = 'exploration'
RULE = (
    'case = (n_workers, history of <=30 requests); request = (method, database, '
    'worker pick [index or real WorkerQueue], version index of each of the 5 state '
    'parts incl. "fresh equal copy", optional fault [compile error | failing transfer of '
    'part p with exception type t]). Non-trivial = a worker serves a database after '
    'another worker served a change to it, or any request follows a failed state '
    'transfer or compile error on the same worker, or a part goes A->B->A; distinct '
    'by history hash.')
ASSUMPTIONS = [
    'process transport (amsg, worker_proc) replaced by an in-process call with the same '
    '(status, payload) protocol; the compiler is a recorder',
    'requests are sequential (a worker serves one request at a time, as the queue guarantees)',
]
MIN_EVALS = {'quick': 3000, 'thorough': 100000}
PARTS = ('user_schema', 'reflection_cache', 'global_schema', 'database_config',
         'system_config')
EXC_TYPES = ['UnpicklingError', 'AttributeError', 'EOFError', 'MemoryError',
             'ValueError', 'ImportError']

_M = {}


def _explode(name):
    exc = {'UnpicklingError': pickle.UnpicklingError}.get(name) or getattr(
        __builtins__ if isinstance(__builtins__, types.ModuleType) else
        types.SimpleNamespace(**__builtins__), name)
    raise exc(f'injected {name} while unpickling')


class Bomb:
    """pickles fine, explodes with the chosen exception when unpickled"""

    def __init__(self, name):
        self.name = name

    def __reduce__(self):
        return (_explode, (self.name,))

    def __eq__(self, other):
        return isinstance(other, Bomb) and other.name == self.name

    def __hash__(self):
        return hash(('Bomb', self.name))


class FakeState:
    """stand-in for CompilerConnectionState"""

    def __init__(self, tag):
        self.tag = tag
        self.root = None

    def set_root_user_schema(self, s):
        self.root = s

    def __eq__(self, other):
        return isinstance(other, FakeState) and other.tag == self.tag

    def __hash__(self):
        return hash(self.tag)

    def __repr__(self):
        return f'FakeState({self.tag!r}, root={self.root!r})'


class CompileError(Exception):
    pass


def _setup():
    if _M:
        return _M
    import immutables
    import edb.server  # noqa

    def stub(name, **attrs):
        if name in sys.modules:
            return
        m = types.ModuleType(name)
        m.__dict__.update(attrs)
        sys.modules[name] = m
        parent, _, child = name.rpartition('.')
        if parent in sys.modules:
            setattr(sys.modules[parent], child, m)

    try:
        import edb.server.dbview  # noqa
    except Exception:
        pass
    stub('edb.server.dbview.dbview', DatabaseIndex=object, Database=object,
         DatabaseConnectionView=object)
    stub('edb.graphql', TranspiledOperation=object, compile_graphql=None)
    from edb.server.compiler_pool import pool as P, state as S, queue as Q
    _M.update(P=P, S=S, Q=Q, immutables=immutables)
    _M['wpath'] = str(env.REPO / 'edb/server/compiler_pool/worker.py')
    return _M


_wcount = [0]


def _load_worker_module():
    M = _setup()
    _wcount[0] += 1
    name = f'edb.server.compiler_pool.worker__vp{_wcount[0]}'
    spec = importlib.util.spec_from_file_location(name, M['wpath'])
    m = importlib.util.module_from_spec(spec)
    m.__package__ = 'edb.server.compiler_pool'
    sys.modules[name] = m
    try:
        spec.loader.exec_module(m)
    finally:
        sys.modules.pop(name, None)
    return m


class Recorder:
    def __init__(self):
        self.calls = []
        self.fail_next = False
        self.counter = 0

    def _maybe_fail(self):
        if self.fail_next:
            self.fail_next = False
            raise CompileError('injected compile error')

    def compile_serialized_request(self, us, gs, rc, dc, sc, *args, **kw):
        self.calls.append(('compile', us, gs, rc, dc, sc, args))
        self._maybe_fail()
        self.counter += 1
        want_state = args and args[0] == 'tx'
        st = None
        if want_state:
            st = FakeState(('st', id(self), self.counter))
            st.root = us
        return ('units', args), st

    def compile_serialized_request_in_tx(self, cstate, *args, **kw):
        self.calls.append(('compile_in_tx', cstate, getattr(cstate, 'root', None), args))
        self._maybe_fail()
        self.counter += 1
        ns = FakeState(('st', id(self), self.counter))
        ns.root = getattr(cstate, 'root', None)
        return ('units', args), ns

    def compile_notebook(self, us, gs, rc, dc, sc, *args, **kw):
        self.calls.append(('compile_notebook', us, gs, rc, dc, sc, args))
        self._maybe_fail()
        return ('nb', args)

    def compile_sql(self, us, gs, rc, dc, sc, *args, **kw):
        self.calls.append(('compile_sql', us, gs, rc, dc, sc, args))
        self._maybe_fail()
        return ('sql', args)


def _make_classes():
    if 'FakeWorker' in _M:
        return
    M = _setup()
    P, Q, immutables = M['P'], M['Q'], M['immutables']

    class Con:
        def is_closed(self):
            return False

    class FakeWorker(P.BaseWorker):
        def __init__(self, idx, init_global, init_sys):
            super().__init__(immutables.Map(), None, 'std', 'refl', 'layout',
                             init_global, init_sys)
            self.idx = idx
            self.mod = _load_worker_module()
            self.rec = Recorder()
            self.mod.INITED = True
            self.mod.COMPILER = self.rec
            self.mod.GLOBAL_SCHEMA = pickle.loads(init_global)
            self.mod.INSTANCE_CONFIG = init_sys
            self._con = Con()

        async def _request(self, method_name, args):
            # same (status, payload) protocol as worker_proc.worker()
            try:
                meth = self.mod.get_handler(method_name)
                res = meth(*args)
                data = (0, res)
            except Exception as ex:
                data = (1, ex, traceback.format_exc())
            try:
                return pickle.dumps(data, -1)
            except Exception:
                return pickle.dumps((2, traceback.format_exc()), -1)

    class Pool(P.AbstractPool):
        def __init__(self, loop, n, init_global, init_sys):
            self._loop = loop
            self.workers = [FakeWorker(i, init_global, init_sys) for i in range(n)]
            self.queue = Q.WorkerQueue(loop)
            for w in self.workers:
                self.queue.release(w)
            self.pick = 'q'
            self.last = None
            self.from_queue = False

        async def _acquire_worker(self, *, condition=None, weighter=None, **kw):
            if self.pick == 'q':
                w = await self.queue.acquire(condition=condition, weighter=weighter)
                self.from_queue = True
            else:
                w = self.workers[self.pick % len(self.workers)]
                self.from_queue = False
            self.last = w
            return w

        def _release_worker(self, worker, *, put_in_front=True):
            if self.from_queue:
                self.queue.release(worker, put_in_front=put_in_front)

    _M['FakeWorker'] = FakeWorker
    _M['Pool'] = Pool


def preload():
    _setup()
    _make_classes()


class Values:
    """identity-stable versions of every state part"""

    def __init__(self):
        Map = _M['immutables'].Map
        self.obj = {}
        self.Map = Map

    def get(self, part, db, ver):
        """ver: 0..3 stable objects; 4 = fresh equal copy of version 1;
        version 0 of the map-valued parts is the empty (falsy) map"""
        fresh = ver == 4
        v = 1 if fresh else ver
        key = (part, db if part in ('user_schema', 'reflection_cache',
                                    'database_config') else None, v)
        if fresh or key not in self.obj:
            o = self._make(part, key[1], v)
            if fresh:
                return o
            self.obj[key] = o
        return self.obj[key]

    def _make(self, part, db, v):
        if part in ('user_schema', 'global_schema'):
            return pickle.dumps((part, db, v))
        if v == 0:
            return self.Map()
        return self.Map({part: (db, v)})

    def value_of(self, part, obj):
        if part in ('user_schema', 'global_schema'):
            return pickle.loads(obj)
        return obj


def _bomb_for(part, exc, vals, db, ver):
    if part in ('user_schema', 'global_schema'):
        return pickle.dumps(Bomb(exc))
    return vals.Map({part: (db, ver), 'bomb': Bomb(exc)})


def run_case(case):
    """returns (violations [(sig, detail)], info)"""
    _make_classes()
    M = _M
    S = M['S']
    vals = Values()
    loop = asyncio.new_event_loop()
    viol = []
    info = dict(requests=0, failed_sync=0, compile_errors=0, in_tx=0,
                reuse_marker=0, cross_worker_change=0, after_fault=0, aba=0)
    try:
        init_g = vals.get('global_schema', None, 1)
        init_s = vals.get('system_config', None, 1)
        pool = M['Pool'](loop, case['workers'], init_g, init_s)
        tx_states = {}      # slot -> (pickled_state bytes object, db, user_schema obj, expected FakeState tag)
        last_server = {}    # db -> worker idx that last got a change
        faulted = set()
        seen_versions = {}

        def bad(sig, detail):
            if not viol:
                viol.append((sig, detail))

        for i, r in enumerate(case['reqs']):
            if viol:
                break
            info['requests'] += 1
            meth = r['m']
            db = f'db{r["db"]}'
            pool.pick = r['w']
            parts = {p: vals.get(p, db, r['v'][k]) for k, p in enumerate(PARTS)}
            for k, p in enumerate(PARTS):
                hist = seen_versions.setdefault((p, db if k in (0, 1, 3) else None), [])
                v = r['v'][k]
                if hist and hist[-1] != v and v in hist:
                    info['aba'] += 1
                if not hist or hist[-1] != v:
                    hist.append(v)
            expect = {p: vals.value_of(p, parts[p]) for p in PARTS}
            fault = r.get('f')
            sent = dict(parts)
            if fault and fault[0] == 'sync':
                p = PARTS[fault[1] % 5]
                sent[p] = _bomb_for(p, EXC_TYPES[fault[2] % len(EXC_TYPES)],
                                    vals, db, r['v'][fault[1] % 5])
            if meth == 'compile_in_tx':
                slot = r.get('slot', 0)
                st = tx_states.get(slot)
                if st is None:
                    meth = 'compile'
                    r = dict(r, tx=True)
            w_before = None
            try:
                if meth == 'compile_in_tx':
                    info['in_tx'] += 1
                    pstate, sdb, sus, tag = st
                    # which worker will serve is decided inside; arm the fault
                    # on all workers' recorders is wrong: arm after acquire.
                    armed = fault and fault[0] == 'compile'
                    if armed:
                        for w in pool.workers:
                            w.rec.fail_next = True
                    ncalls = {w.idx: len(w.rec.calls) for w in pool.workers}
                    try:
                        units, new_state, _ = loop.run_until_complete(
                            pool.compile_in_tx(sdb, sus, 1, pstate, 0, 'q'))
                    finally:
                        for w in pool.workers:
                            w.rec.fail_next = False
                    w = pool.last
                    call = w.rec.calls[-1]
                    if len(w.rec.calls) != ncalls[w.idx] + 1 or call[0] != 'compile_in_tx':
                        bad('in-tx-not-compiled', f'req {i}: no compile_in_tx call recorded')
                    else:
                        got_state, got_root = call[1], call[2]
                        if not isinstance(got_state, FakeState) or got_state.tag != tag:
                            bad('in-tx-wrong-state',
                                f'req {i}: transaction slot {slot} expected compiler '
                                f'state {tag!r}, worker {w.idx} compiled with {got_state!r}')
                        elif got_root != pickle.loads(sus):
                            bad('in-tx-wrong-root-schema',
                                f'req {i}: state root user schema {got_root!r} != '
                                f'caller\'s {pickle.loads(sus)!r}')
                    tx_states[slot] = (new_state, sdb, sus,
                                       pickle.loads(new_state).tag)
                else:
                    args = ('tx',) if r.get('tx') else ('plain',)
                    fn = getattr(pool, meth)
                    armed = fault and fault[0] == 'compile'
                    if armed:
                        for w in pool.workers:
                            w.rec.fail_next = True
                    ncalls = {w.idx: len(w.rec.calls) for w in pool.workers}
                    try:
                        res = loop.run_until_complete(fn(
                            db, sent['user_schema'], sent['global_schema'],
                            sent['reflection_cache'], sent['database_config'],
                            sent['system_config'], *args))
                    finally:
                        for w in pool.workers:
                            w.rec.fail_next = False
                    w = pool.last
                    if fault and fault[0] == 'sync':
                        bad('failed-transfer-not-reported',
                            f'req {i}: transfer of {PARTS[fault[1] % 5]} cannot be '
                            f'unpickled by the worker, yet the request succeeded')
                    call = w.rec.calls[-1] if len(w.rec.calls) > ncalls[w.idx] else None
                    if call is None or call[0] != meth:
                        bad('not-compiled', f'req {i}: no {meth} call recorded')
                    else:
                        got = dict(zip(('user_schema', 'global_schema',
                                        'reflection_cache', 'database_config',
                                        'system_config'), call[1:6]))
                        for p in PARTS:
                            if got[p] != expect[p]:
                                bad(f'wrong-{p}',
                                    f'req {i} ({meth} on {db}, worker {w.idx}): '
                                    f'compiled with {p}={got[p]!r}, caller passed '
                                    f'{expect[p]!r}')
                                break
                    if meth == 'compile' and r.get('tx') and res[1] is not None:
                        slot = r.get('slot', 0)
                        tx_states[slot] = (res[1], db, parts['user_schema'],
                                           pickle.loads(res[1]).tag)
                if w.idx in faulted:
                    info['after_fault'] += 1
                for p in ('user_schema', 'reflection_cache', 'database_config'):
                    pass
                prev = last_server.get(db)
                if prev is not None and prev != w.idx:
                    info['cross_worker_change'] += 1
                last_server[db] = w.idx
            except CompileError:
                info['compile_errors'] += 1
                w = pool.last
                faulted.add(w.idx)
                if not (fault and fault[0] == 'compile'):
                    bad('spurious-compile-error', f'req {i}: unexpected compile error')
            except S.FailedStateSync as e:
                info['failed_sync'] += 1
                w = pool.last
                faulted.add(w.idx)
                if not (fault and fault[0] == 'sync'):
                    bad('spurious-failed-sync', f'req {i}: FailedStateSync without '
                        f'an injected fault: {e}')
            except Exception as e:
                w = pool.last
                if w is not None:
                    faulted.add(w.idx)
                if fault and fault[0] == 'sync':
                    # the transfer failed but was not reported as a failed
                    # state sync: BaseWorker.call acknowledged the state
                    info['failed_sync'] += 1
                else:
                    bad('request-raised:' + type(e).__name__,
                        f'req {i} ({meth}): {type(e).__name__}: {e}')
            # belief == truth for every worker
            for w in pool.workers:
                d = _belief_vs_truth(w)
                if d:
                    bad('belief-differs:' + d[0],
                        f'after req {i} ({meth} on {db}, fault={fault}): worker '
                        f'{w.idx}: {d[1]}')
                    break
        return viol, info
    finally:
        loop.close()


def _belief_vs_truth(w):
    mod = w.mod
    for dbname, b in w._dbs.items():
        t = mod.DBS.get(dbname)
        if t is None:
            return ('db-missing', f'server believes worker knows {dbname}, it does not')
        try:
            bus = pickle.loads(b.user_schema_pickle)
        except Exception:
            return ('user_schema', f'server believes {dbname} user schema is an '
                    f'object the worker could never unpickle')
        if bus != t.user_schema:
            return ('user_schema', f'{dbname}: server believes user_schema='
                    f'{bus!r}, worker holds {t.user_schema!r}')
        if _has_bomb(b.reflection_cache) or b.reflection_cache != t.reflection_cache:
            return ('reflection_cache', f'{dbname}: server believes reflection_cache='
                    f'{b.reflection_cache!r}, worker holds {t.reflection_cache!r}')
        if _has_bomb(b.database_config) or b.database_config != t.database_config:
            return ('database_config', f'{dbname}: server believes database_config='
                    f'{b.database_config!r}, worker holds {t.database_config!r}')
    try:
        bg = pickle.loads(w._global_schema_pickle)
    except Exception:
        return ('global_schema', 'server believes the worker holds a global schema '
                'it could never unpickle')
    if bg != mod.GLOBAL_SCHEMA:
        return ('global_schema', f'server believes global_schema={bg!r}, worker '
                f'holds {mod.GLOBAL_SCHEMA!r}')
    if _has_bomb(w._system_config) or w._system_config != mod.INSTANCE_CONFIG:
        return ('system_config', f'server believes system_config='
                f'{w._system_config!r}, worker holds {mod.INSTANCE_CONFIG!r}')
    return None


def _has_bomb(m):
    try:
        return 'bomb' in m
    except TypeError:
        return False


def _strategy():
    from hypothesis import strategies as st

    @st.composite
    def cases(draw):
        nw = draw(st.sampled_from([1, 2, 2, 3]))
        ndb = draw(st.sampled_from([1, 2, 3]))
        ver = st.sampled_from([0, 1, 1, 2, 2, 3, 4])
        reqs = []
        n = draw(st.integers(1, 30))
        cur = {}
        for _ in range(n):
            db = draw(st.integers(0, ndb - 1))
            # mostly keep the previous versions, change 0-2 parts
            base = list(cur.get(db, [1, 1, 1, 1, 1]))
            base[2] = cur.get('g', 1)
            base[4] = cur.get('s', 1)
            for _c in range(draw(st.sampled_from([0, 0, 1, 1, 2, 5]))):
                k = draw(st.integers(0, 4))
                base[k] = draw(ver)
            cur[db] = list(base)
            cur['g'] = base[2]
            cur['s'] = base[4]
            m = draw(st.sampled_from(['compile', 'compile', 'compile',
                                      'compile_in_tx', 'compile_in_tx',
                                      'compile_notebook', 'compile_sql']))
            r = dict(m=m, db=db, v=base,
                     w=draw(st.one_of(st.just('q'), st.integers(0, nw - 1))))
            if m == 'compile':
                r['tx'] = draw(st.booleans())
            if m in ('compile', 'compile_in_tx'):
                r['slot'] = draw(st.integers(0, 1))
            f = draw(st.integers(0, 9))
            if f == 0:
                r['f'] = ['compile']
            elif f == 1 and m != 'compile_in_tx':
                r['f'] = ['sync', draw(st.integers(0, 4)),
                          draw(st.integers(0, len(EXC_TYPES) - 1))]
            reqs.append(r)
        return dict(workers=nw, reqs=reqs)
    return cases()


def _nontrivial(info):
    return bool(info['cross_worker_change'] or info['after_fault'] or info['aba'])


def _run(rec, case):
    viol, info = run_case(case)
    cls = [f'workers={case["workers"]}']
    for k in ('failed_sync', 'compile_errors', 'in_tx', 'cross_worker_change',
              'after_fault', 'aba'):
        if info[k]:
            cls.append('has-' + k)
    rec.case(case, nontrivial=_nontrivial(info), classes=cls,
             sample={'workers': case['workers'], 'reqs': case['reqs'][:6],
                     'n_reqs': len(case['reqs'])})
    rec.extra['requests'] = rec.extra.get('requests', 0) + info['requests']
    for sig, detail in viol[:1]:
        rec.violation(sig, case, detail)


def shard(rec, idx, nshards, seed, tier):
    preload()
    n = 250 if tier == 'quick' else 8000
    core.run_given(_strategy(), lambda c: _run(rec, c),
                   seed=seed * 1000 + idx, max_examples=n)


def replay(case):
    preload()
    viol, _ = run_case(case)
    return '; '.join(f'{s}: {d}' for s, d in viol[:2]) or None


def shrink(case, sig):
    def fails(c):
        v, _ = run_case(c)
        return any(s == sig for s, _ in v)

    def simplify(c):
        for sub in core.list_simplify(c['reqs']):
            yield dict(c, reqs=sub)
        if c['workers'] > 1:
            yield dict(c, workers=c['workers'] - 1)
        for i, r in enumerate(c['reqs']):
            for k in ('f', 'tx'):
                if r.get(k):
                    r2 = dict(r)
                    del r2[k]
                    yield dict(c, reqs=c['reqs'][:i] + [r2] + c['reqs'][i + 1:])
            if r['m'] != 'compile':
                yield dict(c, reqs=c['reqs'][:i] + [dict(r, m='compile')] + c['reqs'][i + 1:])
            if r['w'] != 0:
                yield dict(c, reqs=c['reqs'][:i] + [dict(r, w=0)] + c['reqs'][i + 1:])
            if r['v'] != [1, 1, 1, 1, 1]:
                for k in range(5):
                    if r['v'][k] != 1:
                        v2 = list(r['v'])
                        v2[k] = 1
                        yield dict(c, reqs=c['reqs'][:i] + [dict(r, v=v2)] + c['reqs'][i + 1:])
    return core.greedy_shrink(case, fails, simplify, budget_s=60)
