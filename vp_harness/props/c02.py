"""C02 — a computed migration turns the old schema into exactly the new one.

Generated: pairs (A, B): A from G-SDL (or empty), B = G-MUT(A) (1-3 edits:
rename type/pointer, add/drop member, retype, single<->multi, required<->
optional, add/remove base, abstract<->concrete, computed<->stored, link
properties, constraints, indexes, annotations, defaults, expressions), a fresh
schema, or empty.  The migration is computed and applied exactly as the server
does in test mode (START MIGRATION TO / POPULATE / COMMIT through
edb.testbase.lang.run_ddl: apply_sdl -> delta_schemas -> ddlast_from_delta ->
CREATE MIGRATION).

Oracle: if accepted, result R must equal T = apply_sdl(B) on the standard
library under two comparators (independent semantic dump; delta_schemas empty
both ways).  Text leg: the committed migration's DDL script, re-parsed from
text and applied to A, must give the same.
"""
from __future__ import annotations

from vp_harness import core, schemaenv as SE
from vp_harness.gen import sdl as G

ID = 'C02'
LEVEL = 'exploration'
RULE = (
    'case = (schema A, schema B). Non-trivial = the migration A->B was accepted and B '
    'was derived from A by at least one edit other than pure addition (so the delta '
    'contains alter / rename / delete), or A or B is empty; distinct by hash of '
    '(A text, B text). Rejected migrations are outside the statement and counted.')
ASSUMPTIONS = [
    'migrations are computed through the test-mode path of edb.testbase.lang.run_ddl '
    '(no interactive prompts, no data): plans that need user input are rejections',
    'semdump ignores ids, backend names, source positions and the spelling flag '
    'declared_overloaded',
]
MIN_EVALS = {'quick': 150, 'thorough': 4000}
PURE_ADD = {'add_prop', 'add_link', 'add_type', 'add_index', 'add_annotation',
            'add_constraint', 'add_linkprop', 'set_default'}


def preload():
    SE.setup()


def run_case(case):
    """-> (violations, info)"""
    S = SE.setup()
    info = dict(status='ok')
    a_text, b_text = case['a'], case['b']
    try:
        if not a_text.strip():
            A = S['std']
        elif case.get('a_via_migration'):
            A = SE.migrate(S['std'], a_text)
        else:
            A = SE.target_from_sdl(a_text)
    except SE.Rejected as e:
        info['status'] = 'a-rejected'
        return [], info
    try:
        T = SE.target_from_sdl(b_text) if b_text.strip() else SE.target_from_sdl('module default {}')
    except SE.Rejected:
        info['status'] = 'b-invalid'
        return [], info
    try:
        R = SE.migrate(A, b_text if b_text.strip() else 'module default {}')
    except SE.Rejected as e:
        info['status'] = 'migration-internal-error' if isinstance(e, SE.Crashed) else 'migration-rejected'
        info['why'] = str(e)[:100]
        return [], info
    out = []
    c = SE.compare(R, T, 'migrated schema vs target')
    if c:
        out.append((c[0], c[1] + f'\n--- A ---\n{a_text}\n--- B ---\n{b_text}\n--- migration ---\n'
                    f'{SE.last_migration_script(R)}'))
        return out, info
    # text leg
    script = SE.last_migration_script(R)
    if script is not None and script.strip():
        try:
            R2 = SE.run_ddl(A, script)
        except SE.Rejected as e:
            out.append(('script-replay-rejected',
                        f'the migration DDL text is rejected when replayed: {e}\n'
                        f'--- script ---\n{script}\n--- A ---\n{a_text}\n--- B ---\n{b_text}'))
            return out, info
        c = SE.compare(R2, T, 'schema after replaying the migration text vs target',
                       deltas=False)
        if c:
            out.append(('text:' + c[0], c[1] + f'\n--- script ---\n{script}\n--- A ---\n{a_text}'
                        f'\n--- B ---\n{b_text}'))
    info['script_len'] = len(script or '')
    return out, info


def _strategy():
    from hypothesis import strategies as st

    @st.composite
    def cases(draw):
        mode = draw(st.integers(0, 19))
        a = draw(G.schema_strategy())
        if mode == 0:
            return dict(a='', b=G.render(a), edits=['from-empty'])
        if mode == 1:
            return dict(a=G.render(a), b='', edits=['to-empty'])
        if mode <= 4:
            b = draw(G.schema_strategy())
            return dict(a=G.render(a), b=G.render(b), edits=['fresh'])
        if mode in (5, 6, 7, 8):
            # a structural family (gen/families.py) inside a generated schema, and one of its edits
            from vp_harness.gen import families as F
            base = draw(G.schema_strategy(max_types=3))
            fam = F.draw_family(draw, base['modules'], editable_only=True)
            a2 = F.add(base, fam['A'], draw)
            edit = draw(st.sampled_from(sorted(fam['B'])))
            b2 = F.replace(a2, fam, edit)
            tag = f'family:{fam["name"]}:{edit}'
            if draw(st.integers(0, 4)) == 0:
                a2, b2, tag = b2, a2, tag + ':reverse'
            return dict(a=G.render(a2), b=G.render(b2), edits=[tag],
                        a_via_migration=draw(st.integers(0, 3)) == 0)
        if mode >= 17:
            # one small, deeply nested change only
            a = G.ensure_deep_sites(a, draw)
            b, edits = G.mutate_small(a, draw)
            if edits:
                return dict(a=G.render(a), b=G.render(b), edits=edits,
                            a_via_migration=draw(st.integers(0, 3)) == 0)
        b, edits = G.mutate(a, draw)
        return dict(a=G.render(a), b=G.render(b), edits=edits,
                    a_via_migration=draw(st.integers(0, 3)) == 0)
    return cases()


def _run(rec, case):
    viol, info = run_case(case)
    edits = case.get('edits', [])
    if info['status'] != 'ok':
        rec.evaluations += 1
        rec.skip(info['status'] + (':' + info.get('why', '')[:40] if 'why' in info else ''))
        return
    nontrivial = any(e not in PURE_ADD for e in edits) and case['a'] != case['b']
    rec.case({'a': case['a'], 'b': case['b']}, nontrivial=nontrivial,
             classes=['edit:' + e for e in sorted(set(edits))] +
                     (['noop'] if case['a'] == case['b'] else []),
             sample={'edits': edits, 'a': case['a'][:400], 'b': case['b'][:400]})
    fam = ''.join('|' + e for e in edits if e.startswith('family:'))
    for sig, detail in viol[:1]:
        tag = _dropped_errmessage(detail, case['a'], case['b']) if 'Constraint.errmessage' in sig else ''
        rec.violation(sig + _script_features(detail) + tag + fam, case, detail)


def _dropped_errmessage(detail, a_text, b_text):
    """root-cause tag: the migrated schema still holds an errmessage that A states explicitly,
    and the message the target has is one that B does not state (in B the constraint inherits
    the message of its abstract constraint).  A *changed* explicit message is not tagged."""
    import re
    m = re.search(r"field errmessage: '((?:[^'\\\\]|\\\\.)*)' != '((?:[^'\\\\]|\\\\.)*)'", detail)
    if not m:
        return ''
    had = "errmessage := '" + m.group(1) + "'"
    want = "errmessage := '" + m.group(2) + "'"
    ok = had in a_text and had not in b_text and want not in b_text
    return '|explicit-errmessage-dropped' if ok else ''


def _script_features(detail):
    """coarse features of the migration plan, part of the root-cause signature"""
    import re
    script = detail.partition('--- migration ---')[2] or detail.partition('--- script ---')[2]
    feats = []
    if re.search(r'ALTER (ABSTRACT )?TYPE [\w:]+ RENAME TO', script) or \
            re.search(r'ALTER TYPE [\w:]+ \{\s*RENAME TO', script):
        feats.append('type-renamed')
    if 'SET OWNED' in script:
        feats.append('set-owned')
    if 'DROP OWNED' in script:
        feats.append('drop-owned')
    if 'DROP EXTENDING' in script or re.search(r'EXTENDING [\w:, ]+ (LAST|FIRST|BEFORE|AFTER)', script):
        feats.append('rebased')
    return '|' + '+'.join(feats)


def shard(rec, idx, nshards, seed, tier):
    SE.setup()
    n = 20 if tier == 'quick' else 400
    core.run_given(_strategy(), lambda c: _run(rec, c), seed=seed * 1000 + idx,
                   max_examples=n)


def replay(case):
    SE.setup()
    viol, info = run_case(case)
    return '; '.join(f'{s}: {d}' for s, d in viol[:2]) or None
