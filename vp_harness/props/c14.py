"""C14 — type descriptors describe query types faithfully and uniquely.

Generated: queries whose result type is known to the generator *by construction*
(an expectation tree is built together with the text): nested object shapes over
the schema of gen/query.py (plain / multi / required / computed pointers, links with
and without sub-shapes, link properties, enum / array / named-tuple properties,
polymorphic and union subjects), tuples, named tuples, arrays, ranges, multiranges,
enums, free objects, every fundamental scalar; 0-4 parameters (required / optional,
scalar / enum / array); x protocol {2.0, 3.0, 1.0} x inline_typenames x
inline_typeids x inline_objectids x output format.  A second stream re-uses the wide
query generator of C13 (result type unknown to the harness).

Oracle: (i) the output and input descriptors are decoded by oracles/typedesc.py, a
decoder written from docs/reference/reference/protocol/typedesc.rst (protocol >= 2),
and the decoded tree must equal the generator's expectation: names, element order,
flags (implicit / link property / link), cardinalities of schema pointers, element
types, tuple / array / range structure, enum labels, object type names; the server's
own sertypes.parse must accept the same bytes (all protocol versions).  (ii) within a
protocol version: equal descriptor ids of any block imply equal decoded structure,
and equal out/in type ids imply byte-identical descriptor streams (also when the same
query is compiled again).
"""
from __future__ import annotations

import uuid as _uuid

from vp_harness import core, env
from vp_harness.gen import query as Q
from vp_harness.oracles import typedesc as TD

ID = 'C14'
LEVEL = 'exploration'
RULE = (
    'case = (query, protocol version, output options). Non-trivial = accepted, and the output '
    'descriptor has nesting depth >= 2 and at least 2 descriptor kinds, or the query has parameters; '
    'distinct by (query text, protocol, options).')
ASSUMPTIONS = [
    'the expectation for shapes is built by the generator from the schema description (pointer kinds, '
    'cardinalities, targets); cardinalities of computed shape elements are not predicted (only decoded)',
    'protocol 1.0 descriptors are only run through sertypes.parse and the id -> bytes checks '
    '(the protocol document in the tree describes the 2.0+ encoding)',
]
MIN_EVALS = {'quick': 4000, 'thorough': 40000}

_S: dict = {}
SC = lambda n: ('scalar', n)   # noqa: E731
COLOR = ('enum', 'default::Color', ['Red', 'Green', 'Blue'])
SHADE = ('enum', 'default::Shade', ['Red', 'Green', 'Blue'])
OTHER_KIND = {
    'default::Color': COLOR,
    'default::Shade': SHADE,
    'array<std|str>': ('array', SC('std::str')),
    'tuple<x:std|int64, y:std|int64>': ('namedtuple', [('x', SC('std::int64')), ('y', SC('std::int64'))]),
}
KIND_E = {'int': SC('std::int64'), 'str': SC('std::str'), 'bool': SC('std::bool')}


def preload():
    if _S:
        return _S
    from vp_harness.props import c13
    S13 = c13.preload()
    from edb.server.compiler import sertypes, enums
    _S.update(S13)
    _S.update(sertypes=sertypes, enums=enums)
    return _S


# ----------------------------------------------------------------------
# typed generator: -> (text, expectation)

SCALAR_LITS = [
    ('1', SC('std::int64')), ("'s'", SC('std::str')), ('true', SC('std::bool')),
    ('1.5', SC('std::float64')), ('1n', SC('std::bigint')), ('1.5n', SC('std::decimal')),
    ('<int32>1', SC('std::int32')), ('<int16>1', SC('std::int16')), ('<float32>1.5', SC('std::float32')),
    ("<uuid>'00000000-0000-0000-0000-000000000001'", SC('std::uuid')),
    ("<datetime>'2020-01-01T00:00:00Z'", SC('std::datetime')),
    ("<duration>'1s'", SC('std::duration')), ('<json>1', SC('std::json')), ("b'x'", SC('std::bytes')),
    ("<cal::local_date>'2020-01-01'", SC('std::cal::local_date')),
    ("<cal::local_time>'10:00:00'", SC('std::cal::local_time')),
    ("<cal::local_datetime>'2020-01-01T00:00:00'", SC('std::cal::local_datetime')),
    ("<cal::relative_duration>'1 day'", SC('std::cal::relative_duration')),
    ("<Color>'Red'", COLOR), ("<Shade>'Green'", SHADE), ("<Color>'Blue'", COLOR),
]
RANGEABLE = [('1', '5', SC('std::int64')), ('<int32>1', '<int32>5', SC('std::int32')),
             ('1.5', '2.5', SC('std::float64')), ('1.5n', '2.5n', SC('std::decimal')),
             ("<datetime>'2020-01-01T00:00:00Z'", "<datetime>'2021-01-01T00:00:00Z'", SC('std::datetime'))]


class TG:
    def __init__(self, draw, info):
        from hypothesis import strategies as st
        self.draw, self.st, self.info = draw, st, info
        self.n = 0
        self.params = []   # (name, card, E)

    def i(self, lo, hi):
        return self.draw(self.st.integers(lo, hi))

    def pick(self, seq):
        return seq[self.i(0, len(seq) - 1)]

    def value(self, depth):
        """a singleton expression of known type"""
        c = self.i(0, 9) if depth > 0 else self.i(0, 3)
        if c <= 3:
            return self.pick(SCALAR_LITS)
        if c == 4:
            parts = [self.value(depth - 1) for _ in range(self.i(1, 3))]
            return '(' + ', '.join(t for t, _ in parts) + (',)' if len(parts) == 1 else ')'), \
                ('tuple', [e for _, e in parts])
        if c == 5:
            parts = [self.value(depth - 1) for _ in range(self.i(1, 3))]
            names = [f'f{k}' for k in range(len(parts))]
            if self.i(0, 2) == 0:
                names.reverse()
            return '(' + ', '.join(f'{n} := {t}' for n, (t, _) in zip(names, parts)) + ')', \
                ('namedtuple', [(n, e) for n, (_, e) in zip(names, parts)])
        if c == 6:
            t, e = self.value(depth - 1)
            if e[0] == 'array':
                t, e = self.pick(SCALAR_LITS)
            # an array literal of a scalar subtype is typed as array<base type>
            return f'[{t}, {t}]', ('array', COLOR if e == SHADE else e)
        if c == 7:
            lo, hi, e = self.pick(RANGEABLE)
            if self.i(0, 2) == 0:
                return f'multirange([range({lo}, {hi})])', ('multirange', e)
            return f'range({lo}, {hi})', ('range', e)
        if c == 8:
            return self.param()
        # free object
        parts = [self.value(depth - 1) for _ in range(self.i(1, 3))]
        return ('{ ' + ', '.join(f'k{k} := {t}' for k, (t, _) in enumerate(parts)) + ' }',
                ('shape', None, [(f'k{k}', 4 if e[0] == 'shape' else 0, 'ONE', e) for k, (_, e) in enumerate(parts)]))

    def param(self):
        k = len(self.params)
        if k >= 4:
            return self.pick(SCALAR_LITS)
        name = f'p{k}'
        ty, e = self.pick([('int64', SC('std::int64')), ('str', SC('std::str')), ('bool', SC('std::bool')),
                           ('Color', COLOR), ('Shade', SHADE), ('array<int64>', ('array', SC('std::int64'))),
                           ('float64', SC('std::float64')), ('array<str>', ('array', SC('std::str'))),
                           ('uuid', SC('std::uuid')), ('bigint', SC('std::bigint'))])
        opt = self.i(0, 2) == 0
        self.params.append((name, 'AT_MOST_ONE' if opt else 'ONE', e))
        # an optional parameter is wrapped so that the surrounding expression stays a singleton
        text = f'<optional {ty}>${name}' if opt else f'<{ty}>${name}'
        if opt:
            lit = {'int64': '0', 'str': "''", 'bool': 'false', 'Color': "<Color>'Red'", 'Shade': "<Shade>'Red'",
                   'array<int64>': '<array<int64>>[]', 'float64': '0.5', 'array<str>': '<array<str>>[]',
                   'uuid': "<uuid>'00000000-0000-0000-0000-000000000002'", 'bigint': '0n'}[ty]
            text = f'({text} ?? {lit})'
        return text, e

    def ptr_e(self, p):
        if p.is_link:
            return None
        if isinstance(p.target, tuple):
            return OTHER_KIND.get(p.target[1])
        return KIND_E[p.target]

    @staticmethod
    def card(p):
        if p.multi:
            return 'AT_LEAST_ONE' if p.required else 'MANY'
        return 'ONE' if p.required else 'AT_MOST_ONE'

    def shape(self, t, depth, via_link=None, actual=None):
        """-> (shape text, expected elements [(name, flags, card|None, E)])"""
        els, exp = [], []
        ptrs = list(self.info.ptrs(t).values())
        order = list(range(len(ptrs)))
        # a drawn permutation: element order in the descriptor must follow the query
        for k in range(len(order) - 1, 0, -1):
            j = self.i(0, k)
            order[k], order[j] = order[j], order[k]
        for idx in order:
            p = ptrs[idx]
            if self.i(0, 2) == 0:
                continue
            card = None if p.computed else self.card(p)
            if p.is_link:
                tt = p.target[1]
                if depth > 0 and self.i(0, 1):
                    sub_t, sub_e = self.shape(tt, depth - 1, via_link=p)
                    els.append(f'{p.name}: {sub_t}')
                    e = ('shape', tt, sub_e)
                else:
                    els.append(p.name)
                    e = ('shape', tt, [])
                exp.append((p.name, 4, card, ('set', e) if p.multi else e))
            else:
                e = self.ptr_e(p)
                if e is None:
                    continue
                els.append(p.name)
                exp.append((p.name, 0, card, ('set', e) if p.multi else e))
        # an existing pointer redefined by the query with another optionality
        redefinable = [p for p in ptrs if not p.computed and p.name not in [e[0] for e in exp]
                       and ((not p.is_link and p.target == 'str') or (p.is_link and not p.multi))]
        if redefinable and depth > 0 and self.i(0, 2) == 0:
            p = self.pick(redefinable)
            if p.is_link:
                els.append(f'{p.name} := assert_exists(.{p.name})')
                exp.append((p.name, 4, 'ONE', ('shape', p.target[1], [])))
            elif p.multi:
                # the pointer stays multi (declared so in the schema); only its lower bound changes
                els.append(f"{p.name} := 'const'")
                exp.append((p.name, 0, 'AT_LEAST_ONE', ('set', SC('std::str'))))
            else:
                els.append(f"{p.name} := .{p.name} ?? 'x'")
                exp.append((p.name, 0, 'ONE', SC('std::str')))
        # polymorphic elements: [is Sub].ptr for pointers that only a descendant has
        subs = self.info.types[t]['descendants']
        if subs and self.i(0, 2) == 0:
            for _ in range(self.i(1, 2)):
                sub = self.pick(subs)
                own = [p for p in self.info.ptrs(sub).values()
                       if p.name not in self.info.ptrs(t) and not p.is_link and self.ptr_e(p) is not None
                       and p.name not in [e[0] for e in exp]]
                if not own:
                    continue
                p = self.pick(own)
                e = self.ptr_e(p)
                els.append(f'[is {sub}].{p.name}')
                # when the subject is already (a subtype of) `sub` the intersection is a no-op and
                # the element keeps the lower bound of the pointer
                noop = actual is not None and (actual == sub or actual in self.info.types[sub]['descendants'])
                pc = self.card(p) if noop else ('MANY' if p.multi else 'AT_MOST_ONE')
                exp.append((p.name, 0, None if p.computed else pc, ('set', e) if p.multi else e))
        if via_link is not None and not via_link.computed:
            for lp, k in via_link.linkprops:
                if isinstance(k, tuple) or self.i(0, 1):
                    continue
                els.append(f'@{lp}')
                exp.append((lp, 2, 'AT_MOST_ONE', KIND_E[k]))
        for _ in range(self.i(0, 2) if depth > 0 else 0):
            self.n += 1
            nm = f'c{self.n}'
            c = self.i(0, 3)
            if c <= 1:
                vt, ve = self.value(depth - 1)
                els.append(f'{nm} := {vt}')
                # a free object is an object: the element is a link
                exp.append((nm, 4 if ve[0] == 'shape' else 0, 'ONE', _nofree(ve)))
            elif c == 2:
                tt = self.pick(self.info.concrete)
                sub_t, sub_e = self.shape(tt, 0)
                els.append(f'{nm} := (select detached {tt} {sub_t})')
                exp.append((nm, 4, 'MANY', ('set', ('shape', tt, sub_e))))
            else:
                els.append(f'{nm} := count(User)')
                exp.append((nm, 0, 'ONE', SC('std::int64')))
        if not els:
            els, exp = ['id'], [('id', 0, 'ONE', SC('std::uuid'))]
        return '{ ' + ', '.join(els) + ' }', exp

    def statement(self):
        c = self.i(0, 11)
        if c >= 10:
            parts = [self.param() for _ in range(self.i(1, 4))]
            if self.i(0, 1):
                parts.insert(self.i(0, len(parts)), self.value(1))
            if len(parts) == 1:
                return f'select {parts[0][0]}', parts[0][1]
            return 'select (' + ', '.join(t for t, _ in parts) + ')', ('tuple', [e for _, e in parts])
        if c <= 5:
            t = self.pick(list(self.info.types))
            subj = t
            e_t = t
            r = self.i(0, 5)
            if r == 0 and self.info.types[t]['descendants']:
                sub = self.pick(self.info.types[t]['descendants'])
                subj = f'{t}[is {sub}]'
                # shape pointers come from t; result type is sub
                e_t = sub
            st, se = self.shape(t, self.i(1, 3), actual=e_t)
            if r == 0 and e_t != t:
                pass
            elif r == 1:
                subj = f'(select {t} filter .id = <uuid>$idp)' if False else f'(select {t} limit 1)'
            return f'select {subj} {st}', ('shape', e_t, se)
        if c == 6:
            vt, ve = self.value(2)
            return f'select {vt}', ve
        if c == 7:
            t = self.pick(self.info.concrete)
            st, se = self.shape(t, 1)
            vt, ve = self.value(1)
            return f'select ({vt}, (select {t} {st} limit 1))', None
        if c == 8:
            vt, ve = self.value(1)
            return f'select array_agg({vt})', ('array', ve) if ve[0] != 'array' else None
        t = self.pick(self.info.concrete)
        st, se = self.shape(t, 1)
        return f'select {{ a := (select {t} {st}), b := count({t}) }}', None


def _nofree(e, top=True):
    """free objects nested inside arrays / tuples: their shape is not predicted (None = not compared)"""
    if e is None:
        return None
    k = e[0]
    if k == 'shape' and e[1] is None:
        return e if top else None
    if k in ('array', 'range', 'multirange', 'set'):
        return (k, _nofree(e[1], False))
    if k == 'tuple':
        return (k, [_nofree(x, False) for x in e[1]])
    if k == 'namedtuple':
        return (k, [(n, _nofree(x, False)) for n, x in e[1]])
    return e


def _strategy():
    from hypothesis import strategies as st
    S = preload()
    wide = Q.query_strategy(S['info'], Q.QOpts(dml=False, params=True, globals_=False, funcs=True,
                                               aliases=True, group=True))

    @st.composite
    def cases(draw):
        opts = dict(
            protocol=draw(st.sampled_from([[2, 0], [3, 0], [3, 0], [2, 0], [1, 0]])),
            inline_typenames=draw(st.booleans()), inline_typeids=draw(st.booleans()),
            inline_objectids=draw(st.integers(0, 3)) > 0,
            json=draw(st.sampled_from([None, None, None, None, None, None, 'JSON', 'JSON_ELEMENTS', 'NONE'])))
        if draw(st.integers(0, 3)) == 0:
            q = draw(wide)
            return dict(text=q['text'], expect=None, params=None, opts=opts, src='wide')
        g = TG(draw, S['info'])
        text, e = g.statement()
        e = _nofree(e)
        # parameters are described in order of first appearance in the text
        g.params.sort(key=lambda p: text.find('$' + p[0]))
        return dict(text=text, expect=_j(e), params=[[n, c, _j(x)] for n, c, x in g.params], opts=opts,
                    src='typed')
    return cases()


def _j(e):
    """expectation tree -> JSON-able (lists)"""
    if isinstance(e, tuple):
        return [_j(x) for x in e]
    if isinstance(e, list):
        return [_j(x) for x in e]
    return e


# ----------------------------------------------------------------------

def _match(exp, got, path, out):
    """exp: expectation (lists); got: decoded tree (tuples).  Appends mismatches to out."""
    if exp is None or got is None:
        return
    k = exp[0]
    if k == 'set':
        if got[0] != 'set':
            out.append((path, f'expected a set descriptor, got {got[0]}'))
            return
        return _match(exp[1], got[1], path + '/set', out)
    if got[0] == 'set':
        out.append((path, f'unexpected set descriptor around {exp[0]}'))
        return
    if k == 'scalar':
        if got[0] != 'scalar' or got[1] != exp[1]:
            out.append((path, f'expected scalar {exp[1]}, got {got[:2]}'))
        return
    if k == 'enum':
        if got[0] != 'enum' or got[1] != exp[1] or list(got[2]) != list(exp[2]):
            out.append((path, f'expected enum {exp[1]} {exp[2]}, got {got}'))
        return
    if k in ('array', 'range', 'multirange'):
        if got[0] != k:
            out.append((path, f'expected {k}, got {got[0]}'))
            return
        return _match(exp[1], got[1], path + '/' + k, out)
    if k == 'tuple':
        if got[0] != 'tuple' or not isinstance(got[1], (list, tuple)) or len(got[1]) != len(exp[1]):
            n_got = len(got[1]) if len(got) > 1 and isinstance(got[1], (list, tuple)) else ''
            out.append((path, f'expected tuple of {len(exp[1])}, got {got[0]} {n_got}'))
            return
        for i, (e, g) in enumerate(zip(exp[1], got[1])):
            _match(e, g, f'{path}/{i}', out)
        return
    if k == 'namedtuple':
        if got[0] != 'namedtuple' or [n for n, _ in got[1]] != [n for n, _ in exp[1]]:
            out.append((path, f'expected named tuple {[n for n, _ in exp[1]]}, got {got[0]} '
                              f'{[n for n, _ in got[1]] if got[0] == "namedtuple" else ""}'))
            return
        for (n, e), (_, g) in zip(exp[1], got[1]):
            _match(e, g, f'{path}/{n}', out)
        return
    if k == 'shape':
        if got[0] != 'shape':
            out.append((path, f'expected an object shape, got {got[0]}'))
            return
        tname, els = exp[1], exp[2]
        if tname is None:
            if got[1] is not None:
                out.append((path, f'expected a free shape, got object type {got[1]}'))
        else:
            if got[1] is None or got[1][0] != 'objtype' or got[1][1] != f'default::{tname}':
                out.append((path, f'expected object type default::{tname}, got {got[1]}'))
        explicit = [g for g in got[2] if not (g[1] & 1)]
        implicit = [g for g in got[2] if g[1] & 1]
        for g in implicit:
            if g[0] not in ('id', '__tid__', '__tname__'):
                out.append((path, f'implicit element {g[0]!r}'))
        if 'id' in [e[0] for e in els] and 'id' in [g[0] for g in implicit]:
            pass
        want = [e for e in els if not (e[0] == 'id' and 'id' in [g[0] for g in implicit])]
        # link properties are listed after the other elements; order is compared per group
        want = [e for e in want if e[1] != 2] + [e for e in want if e[1] == 2]
        explicit = [g for g in explicit if not g[1] & 2] + [g for g in explicit if g[1] & 2]
        if [g[0] for g in explicit] != [e[0] for e in want]:
            out.append((path, f'shape elements {[g[0] for g in explicit]} != query order {[e[0] for e in want]}'))
            return
        for e, g in zip(want, explicit):
            name, flags, card, et = e
            if (g[1] & 6) != flags:
                out.append((f'{path}.{name}', f'flags {g[1]} != expected {flags} (2 = link property, 4 = link)'))
            if card is not None and g[2] != card:
                out.append((f'{path}.{name}', f'cardinality {g[2]} != {card} of the schema pointer'))
            _match(et, g[3], f'{path}.{name}', out)
        return
    out.append((path, f'unknown expectation {k}'))


def run_case(case, memo=None):
    """-> (violations, info)"""
    S = preload()
    sertypes, enums = S['sertypes'], S['enums']
    o = case['opts']
    pv = tuple(o['protocol'])
    info = dict(status='ok')
    viol = []
    kw = dict(protocol_version=pv, inline_typenames=o['inline_typenames'],
              inline_typeids=o['inline_typeids'], inline_objectids=o['inline_objectids'],
              output_format=getattr(enums.OutputFormat, o['json']) if o.get('json') else enums.OutputFormat.BINARY)

    def comp():
        return S['compiler'].compile(
            user_schema=S['us'], global_schema=S['s_schema'].EMPTY_SCHEMA, reflection_cache=S['refl'],
            database_config=S['E'], system_config=S['E'], request=env.Req(case['text'], **kw))[0]
    try:
        units = comp()
    except S['errors'].InternalServerError as e:
        info['status'] = 'compiler-crash'
        info['why'] = str(e)[:50]
        return [], info
    except S['errors'].EdgeDBError as e:
        info['status'] = 'rejected'
        info['why'] = f'{type(e).__name__}: {str(e)[:50]}'
        return [], info
    except (AssertionError, KeyError, AttributeError, TypeError, ValueError, IndexError, RecursionError) as e:
        info['status'] = 'compiler-crash'
        info['why'] = f'{type(e).__name__}: {str(e)[:50]}'
        return [], info
    u = units[0]
    sig_opts = f'p{pv[0]}'
    stats = dict(depth=0, kinds=0)
    for which, data, tid in (('out', u.out_type_data, u.out_type_id), ('in', u.in_type_data, u.in_type_id)):
        data = bytes(data or b'')
        tid_b = bytes(tid) if tid is not None else b''
        # the server's own decoder
        if data and not (pv < (2, 0) and o['inline_typenames'] and which == 'out'):
            try:
                sertypes.parse(data, pv)
            except Exception as e:
                viol.append((f'{which}:server-parse-fails:{sig_opts}:{type(e).__name__}',
                             f'`{case["text"]}` {o}: sertypes.parse rejects the {which} descriptor: {e}'))
        if memo is not None and tid_b:
            key = (which, pv, tid_b, o['inline_typenames'], o['inline_typeids'], o['inline_objectids'])
            prev = memo.setdefault(key, (data, case['text']))
            if prev[0] != data:
                viol.append((f'{which}:same-id-different-bytes:{sig_opts}',
                             f'type id {_uuid.UUID(bytes=tid_b)} has two different descriptor streams: '
                             f'`{prev[1]}` vs `{case["text"]}` ({o})'))
        if which == 'out' and o.get('json') == 'NONE' and (data or (tid_b and tid_b != bytes(16))):
            viol.append((f'out:none-format-has-descriptor:{sig_opts}',
                         f'`{case["text"]}`: output format NONE but a descriptor of {len(data)} bytes is reported'))
        if pv < (2, 0) or not data:
            continue
        try:
            blocks, _annos = TD.decode(data)
            root = TD.tree(blocks, len(blocks) - 1)
        except TD.DecodeError as e:
            viol.append((f'{which}:undecodable:{sig_opts}', f'`{case["text"]}` {o}: {e}'))
            continue
        if tid_b and blocks[-1].get('id') != _uuid.UUID(bytes=tid_b):
            viol.append((f'{which}:root-id-mismatch:{sig_opts}',
                         f'`{case["text"]}`: last block id {blocks[-1].get("id")} != reported type id '
                         f'{_uuid.UUID(bytes=tid_b)}'))
        ids = [b['id'] for b in blocks if 'id' in b]
        if len(set(ids)) != len(ids):
            viol.append((f'{which}:duplicate-block-id:{sig_opts}',
                         f'`{case["text"]}`: a descriptor id occurs twice in one stream: '
                         f'{[str(i) for i in ids if ids.count(i) > 1][:2]}'))
        if memo is not None:
            for bi, b in enumerate(blocks):
                if 'id' not in b:
                    continue
                try:
                    tr = repr(TD.tree(blocks, bi))
                except TD.DecodeError as e:
                    viol.append((f'{which}:undecodable:{sig_opts}', f'`{case["text"]}`: {e}'))
                    break
                key = ('block', pv, b['id'])
                prev = memo.setdefault(key, (tr, case['text']))
                if prev[0] != tr:
                    viol.append((f'{which}:same-block-id-different-structure:{b["kind"]}:{sig_opts}',
                                 f'descriptor id {b["id"]} ({b["kind"]}) decodes to two structures: '
                                 f'{prev[0][:300]} (`{prev[1][:120]}`) vs {tr[:300]} (`{case["text"][:120]}`)'))
        if which == 'out':
            stats['depth'] = _depth(root)
            stats['kinds'] = len({b['kind'] for b in blocks})
            if o.get('json'):
                if root != ('scalar', 'std::str') and root != ('scalar', 'std::json'):
                    viol.append((f'out:json-format-not-str:{sig_opts}',
                                 f'`{case["text"]}`: JSON output format but descriptor {root!r:.200}'))
            elif case.get('expect') is not None:
                mism: list = []
                _match(case['expect'], root, '$', mism)
                for path, what in mism[:2]:
                    viol.append((f'out:mismatch:{_sigpath(what)}:{sig_opts}',
                                 f'`{case["text"]}` {o}: at {path}: {what}'))
                if not o['inline_objectids'] or o['inline_typenames'] or o['inline_typeids']:
                    imp = _implicit_names(root)
                    if o['inline_typenames'] != ('__tname__' in imp) and root[0] == 'shape' and root[1] is not None:
                        viol.append((f'out:tname-option:{sig_opts}',
                                     f'`{case["text"]}` {o}: implicit elements {sorted(imp)}'))
                    if o['inline_typeids'] != ('__tid__' in imp) and root[0] == 'shape' and root[1] is not None:
                        viol.append((f'out:tid-option:{sig_opts}',
                                     f'`{case["text"]}` {o}: implicit elements {sorted(imp)}'))
        elif case.get('params') is not None:
            want = [(n, c, e) for n, c, e in case['params']]
            if root[0] != 'shape' and root[0] != 'input':
                viol.append((f'in:not-a-shape:{sig_opts}', f'`{case["text"]}`: input descriptor is {root[0]}'))
            else:
                got = [(g[0], g[2] if root[0] == 'shape' else g[1], g[3] if root[0] == 'shape' else g[2])
                       for g in root[2 if root[0] == 'shape' else 1]]
                if [g[0] for g in got] != [w[0] for w in want]:
                    viol.append((f'in:names:{sig_opts}',
                                 f'`{case["text"]}`: parameters {[g[0] for g in got]} != {[w[0] for w in want]}'))
                else:
                    for (n, c, e), g in zip(want, got):
                        if g[1] != c:
                            viol.append((f'in:cardinality:{sig_opts}', f'`{case["text"]}`: ${n} is {g[1]}, expected {c}'))
                        mism = []
                        _match(e, g[2], f'${n}', mism)
                        for path, what in mism[:1]:
                            viol.append((f'in:mismatch:{_sigpath(what)}:{sig_opts}',
                                         f'`{case["text"]}`: at {path}: {what}'))
                    names = [a.name for a in (u.in_type_args or [])]
                    if names != [w[0] for w in want]:
                        viol.append((f'in:in_type_args-order:{sig_opts}',
                                     f'`{case["text"]}`: in_type_args {names} != descriptor order'))
    # (ii) compile again: equal ids => equal bytes
    if memo is not None and not viol:
        try:
            u2 = comp()[0]
            for which in ('out', 'in'):
                a_id, b_id = getattr(u, which + '_type_id'), getattr(u2, which + '_type_id')
                a, b = getattr(u, which + '_type_data'), getattr(u2, which + '_type_data')
                if bytes(a_id or b'') == bytes(b_id or b'') and bytes(a or b'') != bytes(b or b''):
                    viol.append((f'{which}:recompile-same-id-different-bytes:{sig_opts}',
                                 f'`{case["text"]}` {o}: two compilations report the same {which} type id with '
                                 f'different descriptor bytes'))
        except Exception:
            pass
    info['stats'] = stats
    return viol, info


def _sigpath(what):
    return ' '.join(what.split()[:3]).replace(':', '')


def _depth(t):
    if not isinstance(t, (tuple, list)):
        return 0
    return 1 + max([_depth(x) for x in t] + [0]) if t and t[0] in (
        'set', 'array', 'tuple', 'namedtuple', 'shape', 'range', 'multirange') else 0 \
        if not t else max([_depth(x) for x in t] + [0])


def _implicit_names(root):
    if root[0] != 'shape':
        return set()
    return {g[0] for g in root[2] if g[1] & 1}


def _run(rec, case, memo):
    viol, info = run_case(case, memo)
    if info['status'] != 'ok':
        rec.evaluations += 1
        rec.skip(info['status'] + ':' + info.get('why', '')[:40])
        return
    st = info.get('stats', {})
    o = case['opts']
    nontrivial = (st.get('depth', 0) >= 2 and st.get('kinds', 0) >= 2) or bool(case.get('params'))
    classes = [f'protocol:{o["protocol"][0]}.{o["protocol"][1]}', 'src:' + case['src'],
               'depth:' + str(min(st.get('depth', 0), 6))]
    if o['inline_typenames']:
        classes.append('opt:inline_typenames')
    if o['inline_typeids']:
        classes.append('opt:inline_typeids')
    if not o['inline_objectids']:
        classes.append('opt:no-objectids')
    if o.get('json'):
        classes.append('opt:json')
    if case.get('params'):
        classes.append('params:' + str(len(case['params'])))
    rec.case({'text': case['text'], 'opts': o}, nontrivial=nontrivial, classes=classes,
             sample={'text': case['text'][:300], 'opts': o})
    seen = set()
    for sig, detail in viol:
        if sig not in seen:
            seen.add(sig)
            rec.violation(sig, case, detail)


def shard(rec, idx, nshards, seed, tier):
    preload()
    n = 300 if tier == 'quick' else 4000
    memo: dict = {}
    core.run_given(_strategy(), lambda c: _run(rec, c, memo), seed=seed * 1000 + idx, max_examples=n)
    rec.extra['distinct_descriptor_ids_seen'] = len([k for k in memo if k[0] == 'block'])


def replay(case):
    preload()
    memo: dict = {}
    viol, _ = run_case(case, memo)
    for other in case.get('with', []):
        v2, _ = run_case(other, memo)
        viol += v2
    return '; '.join(f'{s}: {d}' for s, d in viol[:2]) or None
