//! Minimal stand-in for `append-only-vec`: push returns an index, elements never move.
use std::cell::UnsafeCell;
use std::ops::Index;
pub struct AppendOnlyVec<T> { items: UnsafeCell<Vec<Box<T>>> }
impl<T> AppendOnlyVec<T> {
    pub fn new() -> Self { AppendOnlyVec { items: UnsafeCell::new(Vec::new()) } }
    pub fn push(&self, v: T) -> usize {
        let items = unsafe { &mut *self.items.get() };
        items.push(Box::new(v));
        items.len() - 1
    }
    pub fn len(&self) -> usize { unsafe { (&*self.items.get()).len() } }
}
impl<T> Index<usize> for AppendOnlyVec<T> {
    type Output = T;
    fn index(&self, i: usize) -> &T { unsafe { &*(&(&*self.items.get())[i] as &T as *const T) } }
}
