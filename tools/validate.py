#!/usr/bin/env python3
"""Validate MANIFEST.json and evidence/*.json against the schemas (run with python3-vt)."""
import json, sys, pathlib
import jsonschema
V = pathlib.Path(__file__).resolve().parent.parent
ok = True
ms = json.load(open('/root/.vp/MANIFEST.schema.json'))
es = json.load(open('/root/.vp/EVIDENCE.schema.json'))
m = json.load(open(V / 'MANIFEST.json'))
try:
    jsonschema.validate(m, ms); print('MANIFEST ok', len(m['checks']), 'checks')
except jsonschema.ValidationError as e:
    ok = False; print('MANIFEST INVALID', e.message)
props = [json.loads(l)['id'] for l in open(V / 'properties.jsonl')]
claimed = {c['property_id'] for c in m['checks']}
na = {c['property_id'] for c in m.get('not_applicable', [])}
for p in props:
    if p not in claimed and p not in na:
        ok = False; print('property neither claimed nor not_applicable:', p)
for c in m['checks']:
    f = pathlib.Path(c['evidence_file'])
    if not f.exists():
        print('no evidence yet for', c['property_id']); continue
    try:
        ev = json.load(open(f)); jsonschema.validate(ev, es)
        print('evidence ok', c['property_id'], ev['tier'], ev['coverage'].get('evaluations'), ev['coverage'].get('distinct_nontrivial'), 'wall', ev['wall_s'])
    except Exception as e:
        ok = False; print('evidence INVALID', c['property_id'], getattr(e, 'message', e))
sys.exit(0 if ok else 1)
