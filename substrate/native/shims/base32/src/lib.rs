//! Minimal stand-in for the `base32` crate (RFC 4648 only).
pub enum Alphabet { Rfc4648 { padding: bool } }
pub fn encode(alphabet: Alphabet, data: &[u8]) -> String {
    let Alphabet::Rfc4648 { padding } = alphabet;
    const A: &[u8; 32] = b"ABCDEFGHIJKLMNOPQRSTUVWXYZ234567";
    let mut out = String::new();
    for chunk in data.chunks(5) {
        let mut buf = [0u8; 5];
        buf[..chunk.len()].copy_from_slice(chunk);
        let v = ((buf[0] as u64) << 32) | ((buf[1] as u64) << 24) | ((buf[2] as u64) << 16)
            | ((buf[3] as u64) << 8) | (buf[4] as u64);
        let nchars = (chunk.len() * 8 + 4) / 5;
        for i in 0..8 {
            if i < nchars {
                out.push(A[((v >> (35 - 5 * i)) & 31) as usize] as char);
            } else if padding {
                out.push('=');
            }
        }
    }
    out
}
