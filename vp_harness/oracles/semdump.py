"""Independent semantic dump of the user part of a schema (does not use
Object.compare / delta_schemas).  For every user object: class, name and the
value of every schema field, with object references replaced by names,
expressions by their text, ids erased.

Fields that are identities or bookkeeping rather than schema content are
skipped (see SKIP_FIELDS, each with its reason).
"""
from __future__ import annotations

SKIP_FIELDS = {
    'id': 'identity, differs by construction',
    'backend_id': 'assigned by the backend',
    'builtin': 'always False for user objects',
    'internal': 'bookkeeping',
    'span': 'source position',
    'sourcectx': 'source position',
    'src_ctx': 'source position',
    'origexpr': 'original text echo of an expression (spelling, not content)',
    'created_types': 'ids of compound types created on the side',
    'generated_by': 'migration bookkeeping',
    'script': 'migration text',
    'parents': 'migration history',
    'message': 'migration history',
    'sdl': 'migration history',
    'backend_name': 'random uuid naming the SQL function',
    'inherited_fields': 'bookkeeping of which field values were copied from a base; '
                        'the values themselves are compared',
    'declared_overloaded': 'how the pointer was spelled (overloaded keyword); '
                           'checked by C03 through the DESCRIBE round trip',
}


def _norm(schema, v, depth=0):
    from edb.schema import objects as so, expr as s_expr, name as sn
    if v is None or isinstance(v, (bool, int, float, str, bytes)):
        return v
    if isinstance(v, sn.Name):
        return str(v)
    if isinstance(v, so.Object):
        try:
            return ('ref', type(v).__name__.replace('Shell', ''), _objname(schema, v))
        except Exception as e:
            return ('dangling-ref', type(v).__name__, str(e)[:60])
    if isinstance(v, s_expr.Expression):
        return ('expr', _expr_key(v.text))
    if isinstance(v, s_expr.ExpressionList):
        return ('exprs', tuple(_expr_key(e.text) for e in v))
    if isinstance(v, s_expr.ExpressionDict):
        return ('exprd', tuple(sorted((k, _expr_key(e.text)) for k, e in v.items())))
    if isinstance(v, so.ObjectCollection):
        try:
            items = [_norm(schema, o) for o in v.objects(schema)]
        except Exception as e:
            return ('dangling-coll', str(e)[:80])
        if isinstance(v, (so.ObjectSet, so.ObjectIndexBase)) or 'Set' in type(v).__name__ \
                or 'Index' in type(v).__name__:
            items = sorted(items, key=repr)
        return ('coll', tuple(items))
    if isinstance(v, (list, tuple)):
        return tuple(_norm(schema, x) for x in v)
    if type(v).__name__.startswith(('FrozenCheckedSet', 'CheckedSet')):
        return ('set', tuple(sorted(map(str, v))))
    if isinstance(v, (set, frozenset)):
        return ('set', tuple(sorted((_norm(schema, x) for x in v), key=repr)))
    if isinstance(v, dict):
        return ('dict', tuple(sorted((str(k), _norm(schema, x)) for k, x in v.items())))
    if hasattr(v, 'name') and hasattr(v, 'value') and type(v).__module__ != 'builtins':
        return ('enum', str(v))
    return ('repr', type(v).__name__, repr(v)[:80])


import functools


_RAW = False


def _expr_key(text):
    return text if _RAW else _expr_key_cached(text)


@functools.lru_cache(maxsize=20000)
def _expr_key_cached(text):
    """expressions are compared as programs, not as spellings: the stored text
    is re-printed by the system (redundant parentheses, keyword case), so it is
    parsed and re-printed through one canonical path"""
    try:
        from edb.edgeql import parser as qlparser, codegen as qlcodegen
        return qlcodegen.generate_source(qlparser.parse_fragment(text), pretty=False)
    except Exception:
        return text


def _objname(schema, obj):
    n = obj.get_name(schema)
    return str(n)


def semdump(schema, *, include_migrations=False, bookkeeping=False, raw_expr=False):
    global _RAW
    _RAW = raw_expr
    """{(class, name): {field: value}} for every user object"""
    from edb.schema import migrations as s_mig, objects as so
    out = {}
    for obj in schema.get_objects(exclude_stdlib=True, exclude_global=True):
        if isinstance(obj, s_mig.Migration) and not include_migrations:
            continue
        cls = type(obj)
        rec = {}
        for fname, field in cls.get_schema_fields().items():
            if fname in SKIP_FIELDS and not (
                    bookkeeping and fname in ('inherited_fields', 'declared_overloaded')):
                continue
            try:
                v = obj.get_field_value(schema, fname)
            except Exception as e:
                v = ('error', type(e).__name__, str(e)[:80])
            rec[fname] = _norm(schema, v)
        key = (cls.__name__, _objname(schema, obj))
        if key in out:
            key = (cls.__name__, _objname(schema, obj), 'dup')
        out[key] = rec
    return out


def diff(a, b, limit=6):
    """human-readable differences between two dumps"""
    out = []
    for k in sorted(set(a) | set(b), key=repr):
        if k not in a:
            out.append(f'only in second: {k}')
        elif k not in b:
            out.append(f'only in first: {k}')
        elif a[k] != b[k]:
            for f in sorted(set(a[k]) | set(b[k])):
                if a[k].get(f) != b[k].get(f):
                    out.append(f'{k[0]} {k[1]}: field {f}: {a[k].get(f)!r} != {b[k].get(f)!r}')
        if len(out) >= limit:
            break
    return out


_PRIO = ['ObjectType', 'ScalarType', 'Property', 'Link', 'Constraint', 'Index',
         'AnnotationValue', 'Annotation', 'Global', 'Alias', 'Function',
         'AccessPolicy', 'Trigger', 'Rewrite']


def _prio(key):
    try:
        return _PRIO.index(key[0])
    except ValueError:
        return len(_PRIO)


def first_diff_sig(a, b):
    """root-cause signature: (object class, field) of the most significant
    difference (user-visible object classes first, so that differences on
    derived objects do not hide a difference on the types themselves)"""
    cands = []
    for k in set(a) | set(b):
        if k not in a:
            cands.append((_prio(k), repr(k), f'extra:{k[0]}'))
        elif k not in b:
            cands.append((_prio(k), repr(k), f'missing:{k[0]}'))
        elif a[k] != b[k]:
            for f in sorted(set(a[k]) | set(b[k])):
                if a[k].get(f) != b[k].get(f):
                    # implicit pointers (__type__, id) are derived objects
                    derived = '__type__' in k[1] or '||id&' in k[1] or '|id@' in k[1]
                    cands.append((_prio(k) + (20 if derived else 0), repr(k),
                                  f'field:{k[0]}.{f}' + ('(implicit)' if derived else '')))
                    break
    if not cands:
        return None
    return min(cands)[2]


def all_diff_fields(a, b, limit=6):
    """sorted set of 'Class.field' (or extra:/missing:Class) that differ"""
    out = set()
    for k in set(a) | set(b):
        if k not in a:
            out.add(f'extra:{k[0]}')
        elif k not in b:
            out.add(f'missing:{k[0]}')
        elif a[k] != b[k]:
            for f in set(a[k]) | set(b[k]):
                if a[k].get(f) != b[k].get(f):
                    out.add(f'{k[0]}.{f}')
    return sorted(out)[:limit]
