"""C07 — access policies guard every read path.

Generated: (1) a policy placement over a schema with single and multiple
inheritance, links, backlinks, link properties, computed pointers, a schema
alias, computed globals and a set-returning function: every subset of
{Tagged, Owned, Secret, SubSecret, Note, Doc} may carry a policy of a drawn kind
(allow select / allow all / deny select / deny all, the deny kinds next to an
unconditional allow); every policy condition embeds a marker string constant
('PM_<Type>') so that its filter is recognisable in SQL; (2) a read-only query
from the type-directed generator (direct selection, link traversal, backlinks,
shapes, type intersections, aggregates, subqueries, WITH, FOR, computed
pointers) extended with the alias, the globals and the function as sources.

Oracle (taint-style invariant over the SQL tree returned by
compile_ir_to_sql_tree): every range variable over the physical table of a
concrete type C whose policies (own and inherited) are select-relevant must sit
inside the FROM of a SELECT that has a WHERE clause and whose FROM/WHERE subtree
contains *all* marker constants of C's policies; a CTE that contains an
unguarded raw reference is itself raw at every use site.  Reads inside the
policy condition itself are exempt by the documented rule (no user policies
inside a policy); conditions are local to the object, so the exemption is not
exercised.  Metamorphic companion: compiled with apply_user_access_policies=
False the same query must contain no marker (and is recorded as exposing the
table, which shows that the oracle is not vacuous).
"""
from __future__ import annotations

from vp_harness import core, env, schemaenv as SE
from vp_harness.gen import query as Q

ID = 'C07'
LEVEL = 'exploration'
RULE = (
    'case = (policy placement, read-only query). Non-trivial = accepted, the SQL reads at least one '
    'table of a type with select-relevant policies, and the query reaches it through something other '
    'than a bare type reference (link, backlink, shape, intersection, aggregate, subquery, WITH/FOR, '
    'alias, global, function, computed pointer, or via an ancestor/descendant of the policy holder); '
    'distinct by (placement, query text).')
ASSUMPTIONS = [
    'purely structural: shows that storage is read under the filter, not that ids of hidden objects '
    'cannot leak through a source-side link column; no SQL is executed',
    'policy conditions are local to the object (.prop != marker); cross-type conditions are not generated',
]
MIN_EVALS = {'quick': 2500, 'thorough': 100000}

BASE_SDL = '''
module default {
    abstract type Tagged { tag: str; %(Tagged)s }
    abstract type Owned { owner_name: str; %(Owned)s }
    type Secret extending Tagged {
        required code: str;
        multi refs: Doc;
        boss: Secret;
        %(Secret)s
    }
    type SubSecret extending Secret { extra: str; %(SubSecret)s }
    type Note extending Secret, Owned { body: str; %(Note)s }
    type Doc extending Owned {
        required title: str;
        secret: Secret;
        multi secrets: Secret { weight: int64; };
        about: Tagged;
        property nsecrets := count(.secrets);
        multi link subs := .secrets[is SubSecret];
        multi link cited_by := .<refs[is Secret];
        %(Doc)s
    }
    type Folder {
        required name: str;
        multi items: Tagged;
        top: Secret;
        owned: Owned;
        multi both: Secret | Owned;
        either: SubSecret | Doc;
    }
    alias Secrets := (select Secret filter .code != 'zz');
    alias Tags := (select Tagged filter .tag != 'zz');
    global doc_count := count(Doc);
    global cur := (select Secret filter .code = 'q');
    global cur_codes := (select Secret).code;
    function all_secrets() -> set of Secret using (select Secret);
    function n_owned() -> int64 using (count(Owned));
};
'''
HOLDERS = ['Tagged', 'Owned', 'Secret', 'SubSecret', 'Note', 'Doc']
COND_PROP = {'Tagged': 'tag', 'Owned': 'owner_name', 'Secret': 'code', 'SubSecret': 'extra',
             'Note': 'body', 'Doc': 'title'}
KINDS = ['allow-select', 'allow-all', 'deny-select', 'deny-all', 'allow-select-update', 'allow-select-global']
CONCRETE = ['Secret', 'SubSecret', 'Note', 'Doc', 'Folder']
ANCESTORS = {'Secret': ['Tagged'], 'SubSecret': ['Secret', 'Tagged'], 'Note': ['Secret', 'Tagged', 'Owned'],
             'Doc': ['Owned'], 'Folder': []}

DESCENDANTS = {'Tagged': ['Secret', 'SubSecret', 'Note'], 'Owned': ['Note', 'Doc'],
               'Secret': ['SubSecret', 'Note'], 'SubSecret': [], 'Note': [], 'Doc': [], 'Folder': []}
import re as _re   # noqa: E402
REWRITE_CTE = _re.compile(r't_default::(\w+)~')

_S: dict = {}
_SCHEMAS: dict = {}


def policy_text(holder, kind):
    prop = COND_PROP[holder]
    m = f'PM_{holder}'
    if kind == 'allow-select':
        return f"access policy p_{holder} allow select using (.{prop} ?!= '{m}');"
    if kind == 'allow-select-update':
        return f"access policy p_{holder} allow select, update read using (.{prop} ?!= '{m}');"
    if kind == 'allow-all':
        return f"access policy p_{holder} allow all using (.{prop} ?!= '{m}');"
    if kind == 'allow-select-global':
        # the condition also consults a computed global / alias that reads other (possibly guarded) types
        g = 'global doc_count' if holder != 'Doc' else 'count(Secrets)'
        return f"access policy p_{holder} allow select using (.{prop} ?!= '{m}' or ({g}) < 0);"
    if kind == 'deny-select':
        return (f"access policy a_{holder} allow all; "
                f"access policy p_{holder} deny select using (.{prop} ?= '{m}');")
    if kind == 'deny-all':
        return (f"access policy a_{holder} allow all; "
                f"access policy p_{holder} deny all using (.{prop} ?= '{m}');")
    raise core.HarnessError(kind)


def preload():
    if _S:
        return _S
    SE.setup()
    from edb import errors
    from edb.edgeql import compiler as qlcompiler, parser as qlparser
    from edb.pgsql import compiler as pgcompiler, ast as pgast, common as pgcommon
    from edb.common import ast as cast
    qlparser.preload_spec()
    _S.update(errors=errors, qlcompiler=qlcompiler, qlparser=qlparser, pgcompiler=pgcompiler,
              pgast=pgast, pgcommon=pgcommon, cast=cast)
    return _S


def schema_for(placement):
    """placement: sorted list of [holder, kind] -> dict(schema, info, tables, need)"""
    key = tuple(tuple(x) for x in placement)
    if key in _SCHEMAS:
        return _SCHEMAS[key]
    S = preload()
    fill = {h: '' for h in HOLDERS}
    for h, k in placement:
        fill[h] = policy_text(h, k)
    sdl = BASE_SDL % fill
    schema = SE.migrate(SE.setup()['std'], sdl.strip().rstrip(';'))
    info = Q.introspect(schema)
    pm = dict(placement)
    tables, need = {}, {}
    for c in CONCRETE:
        obj = schema.get(f'default::{c}')
        tn = S['pgcommon'].get_backend_name(schema, obj, catenate=False)
        tables[tuple(tn)] = c
        need[c] = {f'PM_{h}' for h in [c] + ANCESTORS[c] if h in pm}
    r = dict(schema=schema, info=info, tables=tables, need=need, sdl=sdl)
    if len(_SCHEMAS) > 40:
        _SCHEMAS.clear()
    _SCHEMAS[key] = r
    return r


# ----------------------------------------------------------------------
# taint analysis

class Taint:
    def __init__(self, tables, need):
        S = preload()
        self.pg, self.cast = S['pgast'], S['cast']
        self.tables, self.need = tables, need
        self._markers: dict = {}
        self._exposing: dict = {}
        self.raw_reads: list = []        # (type, guarded)
        self.exempt_reads = 0
        self.unguarded: list = []

    def children_v(self, v):
        pg = self.pg
        if isinstance(v, pg.Base):
            yield v
        elif isinstance(v, (list, tuple)):
            for x in v:
                yield from self.children_v(x)
        elif isinstance(v, dict):
            for x in v.values():
                yield from self.children_v(x)

    def children(self, node, skip=()):
        if isinstance(node, self.pg.Base):
            for f, v in self.cast.iter_fields(node, include_meta=False):
                if f in skip:
                    continue
                yield from self.children_v(v)

    def markers(self, node):
        """marker constants in the subtree (following CTE references)"""
        k = id(node)
        if k in self._markers:
            return self._markers[k]
        self._markers[k] = frozenset()     # cycle guard
        out = set()
        pg = self.pg
        if isinstance(node, pg.StringConstant) and isinstance(node.val, str) and node.val.startswith('PM_'):
            out.add(node.val)
        if isinstance(node, pg.RelRangeVar) and isinstance(node.relation, pg.CommonTableExpr):
            out |= self.markers(node.relation.query)
        for c in self.children(node, skip=('ctes',)):
            out |= self.markers(c)
        r = frozenset(out)
        self._markers[k] = r
        return r

    def direct_markers(self, node):
        """marker constants textually inside the subtree (CTE references not followed)"""
        out = set()
        stack, seen = [node], set()
        pg = self.pg
        while stack:
            n = stack.pop()
            if id(n) in seen:
                continue
            seen.add(id(n))
            if isinstance(n, pg.StringConstant) and isinstance(n.val, str) and n.val.startswith('PM_'):
                out.add(n.val)
            if isinstance(n, pg.RelRangeVar) and isinstance(n.relation, pg.CommonTableExpr):
                continue     # a reference, not text
            stack.extend(self.children(n, skip=('ctes',)))
        return out

    def from_items(self, rv):
        if isinstance(rv, self.pg.JoinExpr):
            yield from self.from_items(rv.larg)
            for j in rv.joins:
                yield from self.from_items(j.rarg)
                if j.quals is not None:
                    yield j.quals
        else:
            yield rv

    def scan(self, node, guards, visiting, exempt=False):
        """guards: frozenset of markers that enclose this node. Records raw reads."""
        pg = self.pg
        if isinstance(node, pg.RelRangeVar):
            rel = node.relation
            if isinstance(rel, pg.Relation) and (rel.schemaname, rel.name) in self.tables:
                t = self.tables[(rel.schemaname, rel.name)]
                needed = self.need[t]
                if exempt is True or (isinstance(exempt, frozenset) and t not in exempt):
                    # inside a policy condition user policies are suppressed by design:
                    # either the read sits in a FROM item that spells out a policy condition, or
                    # it is a read of an unrelated type inside the rewrite CTE of another type
                    self.exempt_reads += 1
                    return
                ok = needed <= guards
                self.raw_reads.append((t, ok, bool(needed)))
                if needed and not ok:
                    self.unguarded.append((t, sorted(needed - guards)))
                return
            if isinstance(rel, pg.CommonTableExpr):
                # a reference to a CTE: its body is scanned under the guards of the use site
                if id(rel) in visiting:
                    return
                ex = exempt
                m = REWRITE_CTE.match(rel.name or '')
                if m and ex is False and m.group(1) in DESCENDANTS:
                    # the rewrite CTE of type H: its data are H and H's descendants
                    ex = frozenset([m.group(1)] + DESCENDANTS[m.group(1)])
                self.scan(rel.query, guards, visiting | {id(rel)}, ex)
                return
            if isinstance(rel, pg.Base):
                self.scan(rel, guards, visiting, exempt)
            return
        if isinstance(node, pg.SelectStmt) and not node.op:
            g_here = guards
            if node.where_clause is not None:
                ms = set(self.markers(node.where_clause))
                for f in (node.from_clause or []):
                    ms |= self.markers(f)
                g_here = guards | frozenset(ms)
            is_guard = node.where_clause is not None and g_here != guards
            for f, v in self.cast.iter_fields(node, include_meta=False):
                if f == 'ctes':
                    continue
                if f == 'from_clause':
                    for rv in (v or []):
                        for item in self.from_items(rv):
                            # in a guard SELECT the FROM items that spell out a policy condition
                            # (they textually contain a marker) are the policy body itself
                            ex = True if (is_guard and self.direct_markers(item)) else exempt
                            self.scan(item, g_here, visiting, ex)
                    continue
                for c in self.children_v(v):
                    self.scan(c, guards, visiting, exempt)
            return
        for c in self.children(node, skip=('ctes',)):
            self.scan(c, guards, visiting, exempt)


def analyze(text, sc, policies_on=True):
    S = preload()
    tree = S['qlparser'].parse_query(text)
    ir = S['qlcompiler'].compile_ast_to_ir(
        tree, sc['schema'],
        options=S['qlcompiler'].CompilerOptions(
            modaliases={None: 'default'}, apply_query_rewrites=True,
            apply_user_access_policies=policies_on))
    res = S['pgcompiler'].compile_ir_to_sql_tree(ir, output_format=S['pgcompiler'].OutputFormat.NATIVE)
    t = Taint(sc['tables'], sc['need'])
    t.scan(res.ast, frozenset(), frozenset())
    return t, t.markers(res.ast)


def run_case(case):
    S = preload()
    info = dict(status='ok')
    try:
        sc = schema_for(case['placement'])
    except SE.Rejected as e:
        info['status'] = 'schema-rejected'
        info['why'] = str(e)[:60]
        return [], info
    text = case['text']
    viol = []
    try:
        t, marks = analyze(text, sc, True)
    except S['errors'].InternalServerError as e:
        info['status'] = 'compiler-crash'
        info['why'] = str(e)[:50]
        return [], info
    except S['errors'].EdgeDBError as e:
        info['status'] = 'rejected'
        info['why'] = f'{type(e).__name__}: {str(e)[:50]}'
        return [], info
    except (AssertionError, KeyError, AttributeError, TypeError, ValueError, IndexError, RecursionError) as e:
        info['status'] = 'compiler-crash'
        info['why'] = f'{type(e).__name__}: {str(e)[:50]}'
        return [], info
    protected_reads = [r for r in t.raw_reads if r[2]]
    info.update(reads=len(t.raw_reads), protected_reads=len(protected_reads), exempt=t.exempt_reads,
                read_types=sorted({r[0] for r in protected_reads}))
    if t.unguarded:
        ty, missing = t.unguarded[0]
        holders = sorted(h for h, _ in case['placement'])
        viol.append((f'unguarded:{ty}:missing-{"+".join(missing)}:holders-{"+".join(holders)}',
                     f'`{text}` with policies on {case["placement"]}: the table of {ty} is read without '
                     f'the policy condition(s) {missing} applied ({len(t.unguarded)} unguarded of '
                     f'{len(t.raw_reads)} table reads)'))
    # metamorphic companion
    if protected_reads and case.get('check_off', True):
        try:
            t2, marks2 = analyze(text, sc, False)
            if marks2:
                viol.append(('policies-off-still-filtered',
                             f'`{text}`: compiled with apply_user_access_policies=False the SQL still '
                             f'contains policy markers {sorted(marks2)}'))
            info['off_exposes'] = bool(t2.unguarded)
        except Exception:
            pass
    return viol, info


def _strategy():
    from hypothesis import strategies as st
    preload()
    base = schema_for([])
    extra_obj = {'Secret': ['Secrets', '(global cur)', 'all_secrets()', '(Folder.both[is Secret])'],
                 'Tagged': ['Tags'], 'Owned': ['(Folder.both[is Owned])'],
                 'Doc': ['(Folder.either[is Doc])'], 'SubSecret': ['(Folder.either[is SubSecret])']}
    extra_scalar = {'int': ['(global doc_count)', 'n_owned()', 'count(Folder.both)', 'count(Folder.either)',
                            'count((select Folder { both }).both)'],
                    'str': ['(global cur_codes)']}
    opts = Q.QOpts(dml=False, params=False, globals_=False, funcs=False, aliases=False, group=True,
                   extra_obj=extra_obj, extra_scalar=extra_scalar)
    qs = Q.query_strategy(base['info'], opts)

    @st.composite
    def cases(draw):
        # placements are drawn from a pool that is small per shard (each costs a migration)
        pool_idx = draw(st.integers(0, 5))
        q = draw(qs)
        w = draw(st.integers(0, 9))
        if w <= 1 and q['text'].startswith('select '):
            # the same read next to a computed global / alias / function that reads guarded types
            g = draw(st.sampled_from(['(global doc_count)', 'count(Secrets)', 'n_owned()',
                                      'count((global cur))', 'count(all_secrets())', 'count(Tags)']))
            first = draw(st.booleans())
            inner = f"count(({q['text']}))"
            q = dict(q, text=f'select ({g}, {inner})' if first else f'select ({inner}, {g})',
                     features=q['features'] + ['extra:tuple-with-global'])
        return dict(pool=pool_idx, q=q)
    return cases()


def _placements(seed, idx, n):
    """deterministic pool of placements for a shard (pure function of seed and shard)"""
    import random
    r = random.Random(seed * 7919 + idx)
    out = []
    for _ in range(n):
        k = r.choice([1, 1, 2, 2, 3])
        hs = sorted(r.sample(HOLDERS, k))
        pl = [[h, r.choice(KINDS)] for h in hs]
        if any(k2 == 'allow-select-global' for _, k2 in pl) and 'Doc' not in hs:
            # the global consulted by the policy reads Doc: make Doc guarded as well
            pl = sorted(pl + [['Doc', r.choice(['allow-select', 'deny-select', 'allow-all'])]])
        out.append(pl)
    return out


def _run(rec, case):
    viol, info = run_case(case)
    if info['status'] != 'ok':
        rec.evaluations += 1
        rec.skip(info['status'] + ':' + info.get('why', '')[:40])
        return
    feats = case.get('features', [])
    indirect = any(f for f in feats if f not in ('stmt:select-obj', 'stmt:select-scalar'))
    nontrivial = info['protected_reads'] > 0 and indirect
    classes = [f for f in feats if f.split(':')[0] in (
        'link', 'link-computed', 'backlink', 'type-intersection', 'shape', 'nested-shape', 'count',
        'aggregate', 'with', 'for', 'scalar-subquery', 'extra', 'computed-shape-element', 'union',
        'coalesce', 'filter', 'subtype-ref', 'group', 'partial-path', 'detached', 'exists', 'in', 'limit')]
    classes += ['policy:' + k for _, k in case['placement']] + ['holder:' + h for h, _ in case['placement']]
    classes.append('protected-reads:' + ('0' if not info['protected_reads'] else
                                         '1' if info['protected_reads'] == 1 else '2+'))
    if info.get('off_exposes'):
        classes.append('policies-off-exposes-table')
    if info.get('exempt'):
        classes.append('reads-inside-policy-body-exempt')
    rec.case({'placement': case['placement'], 'text': case['text']}, nontrivial=nontrivial,
             classes=sorted(set(classes)),
             sample={'placement': case['placement'], 'text': case['text'][:300],
                     'protected_types_read': info.get('read_types')})
    for sig, detail in viol[:2]:
        rec.violation(sig, case, detail)


def shard(rec, idx, nshards, seed, tier):
    preload()
    pool = _placements(seed, idx, 6)
    n = 220 if tier == 'quick' else 7000

    def body(c):
        case = dict(placement=pool[c['pool']], text=c['q']['text'], features=c['q']['features'])
        _run(rec, case)
    core.run_given(_strategy(), body, seed=seed * 1000 + idx, max_examples=n)


def replay(case):
    preload()
    viol, _ = run_case(case)
    return '; '.join(f'{s}: {d}' for s, d in viol[:2]) or None
