"""G-SDL / G-MUT: valid-by-construction schema values, their rendering to SDL
text (by the harness, not by the repository's printer), permutations and edits.

A schema value is plain JSON:
  {'modules': {modname: [decl, ...]}}
  decl = {'kind': 'type', 'name', 'abstract', 'bases': [qualified names],
          'members': [member, ...]}
       | {'kind': 'scalar', 'name', 'base', 'constraint': text|None, 'enum': [labels]|None}
       | {'kind': 'alias', 'name', 'expr'}
       | {'kind': 'global', 'name', 'type', 'default': text|None, 'expr': text|None}
       | {'kind': 'function', 'name', 'body', 'ret'}
       | {'kind': 'annotation', 'name'}
       | {'kind': 'constraint', 'name'}          (abstract constraint)
  member = {'kind': 'property'|'link', 'name', 'target', 'card': 'single'|'multi',
            'required': bool, 'expr': text|None, 'default': text|None,
            'overloaded': bool, 'constraints': [text], 'annotations': [[name, val]],
            'readonly': bool, 'linkprops': [[name, type]], 'on_target_delete': text|None}
         | {'kind': 'constraint', 'text'} | {'kind': 'index', 'text'}
         | {'kind': 'annotation', 'name', 'value'}
         | {'kind': 'policy', 'name', 'text'} | {'kind': 'trigger', 'name', 'text'}
"""
from __future__ import annotations

import copy

SCALARS = ['str', 'int64', 'int32', 'float64', 'bool', 'bigint', 'decimal',
           'datetime', 'duration', 'json', 'uuid', 'bytes', 'int16', 'float32']
COLLECTIONS = ['array<str>', 'array<int64>', 'tuple<str, int64>',
               'tuple<a: str, b: int64>']


def qname(mod, name):
    return f'{mod}::{name}'


# ---------------------------------------------------------------- rendering

def render_member(m, indent='    '):
    k = m['kind']
    if k in ('property', 'link'):
        head = []
        if m.get('overloaded'):
            head.append('overloaded')
        if m.get('required'):
            head.append('required')
        if m.get('card') == 'multi':
            head.append('multi')
        elif m.get('explicit_single'):
            head.append('single')
        head.append(k)
        head.append(m['name'])
        body = []
        if m.get('expr') is not None:
            simple = not (m.get('constraints') or m.get('annotations') or m.get('linkprops')
                          or m.get('readonly') or m.get('default') is not None
                          or m.get('on_target_delete'))
            if simple:
                return f"{indent}{' '.join(head)} := ({m['expr']});"
            body.append(f"using ({m['expr']});")
            target = ''
        else:
            target = f" -> {m['target']}" if not m.get('overloaded_notarget') else ''
        if m.get('default') is not None:
            body.append(f"default := ({m['default']});")
        if m.get('readonly'):
            body.append('readonly := true;')
        if m.get('on_target_delete'):
            body.append(f"on target delete {m['on_target_delete']};")
        for c in m.get('constraints', []):
            body.append(f'constraint {c};')
        for a, v in m.get('annotations', []):
            body.append(f"annotation {a} := '{v}';")
        for lpe in m.get('linkprops', []):
            lp, lt = lpe[0], lpe[1]
            if len(lpe) > 2 and lpe[2]:
                body.append(f'property {lp} -> {lt} {{ constraint {lpe[2]}; }};')
            else:
                body.append(f'property {lp} -> {lt};')
        if m.get('body_order'):
            body = [body[i % len(body)] for i in m['body_order']] if False else body
        s = f"{indent}{' '.join(head)}{target}"
        if body:
            s += ' {\n' + ''.join(f'{indent}    {b}\n' for b in body) + indent + '}'
        return s + ';'
    if k == 'constraint':
        return f"{indent}constraint {m['text']};"
    if k == 'index':
        return f"{indent}index on ({m['text']});"
    if k == 'annotation':
        return f"{indent}annotation {m['name']} := '{m['value']}';"
    if k == 'policy':
        return f"{indent}access policy {m['name']} {m['text']};"
    if k == 'trigger':
        return f"{indent}trigger {m['name']} {m['text']};"
    raise ValueError(k)


def render_decl(d, qualified_mod=None, indent='    '):
    name = d['name'] if qualified_mod is None else qname(qualified_mod, d['name'])
    k = d['kind']
    if k == 'raw':
        # hand-written declaration (gen/families.py): SDL text with a {NAME} placeholder
        return indent + d['text'].replace('{NAME}', name).replace('\n', '\n' + indent) + ';'
    if k == 'type':
        head = ('abstract ' if d.get('abstract') else '') + 'type ' + name
        if d.get('bases'):
            head += ' extending ' + ', '.join(d['bases'])
        if not d.get('members'):
            return f'{indent}{head};'
        return (f'{indent}{head} {{\n'
                + '\n'.join(render_member(m, indent + '    ') for m in d['members'])
                + f'\n{indent}}};')
    if k == 'scalar':
        if d.get('enum'):
            return f"{indent}scalar type {name} extending enum<{', '.join(d['enum'])}>;"
        s = f"{indent}scalar type {name} extending {d['base']}"
        if d.get('constraint'):
            s += f" {{ constraint {d['constraint']}; }}"
        return s + ';'
    if k == 'alias':
        return f"{indent}alias {name} := ({d['expr']});"
    if k == 'global':
        if d.get('expr') is not None:
            return f"{indent}global {name} := ({d['expr']});"
        s = f"{indent}{'required ' if d.get('required') else ''}global {name} -> {d['type']}"
        if d.get('default') is not None:
            s += f" {{ default := ({d['default']}); }}"
        return s + ';'
    if k == 'function':
        return (f"{indent}function {name}({d.get('params', '')}) -> {d['ret']} "
                f"using ({d['body']});")
    if k == 'annotation':
        return f"{indent}abstract {'inheritable ' if d.get('inheritable') else ''}annotation {name};"
    if k == 'constraint':
        return (f"{indent}abstract constraint {name}{d.get('params', '')} "
                f"{{ using ({d['expr']}); errmessage := '{d.get('err', 'bad')}'; }};")
    raise ValueError(k)


def render(schema, layout=None):
    """layout (optional) = list of items controlling how declarations are laid
    out: ('block', modname, [decl indexes]) or ('top', modname, decl index).
    Default: one block per module in order."""
    mods = schema['modules']
    if layout is None:
        layout = [('block', m, list(range(len(ds)))) for m, ds in mods.items()]
    out = []
    for item in layout:
        if item[0] == 'block':
            _, m, idxs = item
            out.append(f'module {m} {{')
            for i in idxs:
                out.append(render_decl(mods[m][i]))
            out.append('};')
        else:
            _, m, i = item
            out.append(render_decl(mods[m][i], qualified_mod=m, indent=''))
    return '\n'.join(out) + '\n'


# ---------------------------------------------------------------- generation

def schema_strategy(max_types=5, rich=True):
    from hypothesis import strategies as st

    @st.composite
    def schemas(draw):
        nmods = draw(st.sampled_from([1, 1, 1, 2]))
        modnames = ['default', 'other'][:nmods]
        mods = {m: [] for m in modnames}
        types = []       # (mod, name, abstract, [member names])
        scalars = []     # qualified
        anc_of = {}      # qualified type -> set of ancestors
        multi_of = {}    # qualified type -> names of multi props
        props_of = {}    # qualified type -> {pname: scalar type}
        links_of = {}
        # scalars
        for i in range(draw(st.integers(0, 2))):
            m = draw(st.sampled_from(modnames))
            if draw(st.booleans()):
                d = dict(kind='scalar', name=f'Enum{i}', base=None, constraint=None,
                         enum=draw(st.sampled_from([['A', 'B'], ['Red', 'Green', 'Blue']])))
            else:
                base = draw(st.sampled_from(['str', 'int64']))
                con = draw(st.sampled_from([None, 'max_len_value(10)' if base == 'str' else 'min_value(0)',
                                            'one_of("a", "b")' if base == 'str' else 'max_value(100)']))
                d = dict(kind='scalar', name=f'Sc{i}', base=base, constraint=con, enum=None)
            mods[m].append(d)
            scalars.append((qname(m, d['name']), d))
        has_anno = rich and draw(st.booleans())
        if has_anno:
            mods[modnames[0]].append(dict(kind='annotation', name='note',
                                          inheritable=draw(st.booleans())))
        has_fn = rich and draw(st.integers(0, 3)) == 0
        if has_fn:
            mods[modnames[0]].append(dict(kind='function', name='fn', params='a: int64',
                                          ret='int64', body='a + 1'))
        # types
        ntypes = draw(st.integers(1, max_types))
        chain_mode = draw(st.integers(0, 2)) == 0   # deep single-inheritance chains
        for i in range(ntypes):
            m = draw(st.sampled_from(modnames))
            name = f'T{i}'
            q = qname(m, name)
            abstract = draw(st.integers(0, 3)) == 0
            bases = []
            if types and chain_mode and draw(st.integers(0, 3)) > 0:
                bases.append(types[-1][0])
            elif types and draw(st.booleans()):
                cands = [t for t in types]
                k = draw(st.integers(1, min(2, len(cands))))
                for t in draw(st.permutations(cands)):
                    if len(bases) >= k:
                        break
                    # keep multiple inheritance consistent by construction:
                    # bases unrelated to each other, no clashing pointers
                    ok = True
                    for b in bases:
                        if t[0] in anc_of[b] or b in anc_of[t[0]] or (
                                anc_of[b] & anc_of[t[0]]):
                            ok = False
                        names_b = set(props_of.get(b, {})) | set(links_of.get(b, {}))
                        names_t = set(props_of.get(t[0], {})) | set(links_of.get(t[0], {}))
                        if names_b & names_t:
                            ok = False
                    if ok:
                        bases.append(t[0])
            inherited_props = {}
            inherited_links = {}
            for b in bases:
                inherited_props.update(props_of.get(b, {}))
                inherited_links.update(links_of.get(b, {}))
            members = []
            myprops = dict(inherited_props)
            multi_props = set()
            for b in bases:
                multi_props |= multi_of.get(b, set())
            mylinks = dict(inherited_links)
            for j in range(draw(st.integers(0, 4))):
                r = draw(st.integers(0, 9))
                if r <= 4:      # property
                    pname = f'p{j}'
                    if pname in myprops or pname in mylinks:
                        continue
                    stypes = SCALARS[:8] + [s[0] for s in scalars if s[0]] + (
                        COLLECTIONS if rich else [])
                    t = draw(st.sampled_from(stypes))
                    mem = dict(kind='property', name=pname, target=t,
                               card=draw(st.sampled_from(['single', 'single', 'multi'])),
                               required=draw(st.integers(0, 3)) == 0, expr=None, default=None,
                               constraints=[], annotations=[], linkprops=[])
                    if mem['card'] == 'single' and t in ('str', 'int64') and draw(st.integers(0, 3)) == 0:
                        mem['constraints'].append('exclusive')
                    if t == 'str' and draw(st.integers(0, 4)) == 0:
                        mem['constraints'].append(draw(st.sampled_from([
                            'max_len_value(20)',
                            "max_len_value(20) { errmessage := 'too long' }",
                            "min_len_value(1) { annotation std::description := 'nonempty' }"])))
                    if t == 'int64' and draw(st.integers(0, 4)) == 0:
                        mem['constraints'].append('min_value(0)')
                    if mem['card'] == 'single' and t in ('str', 'int64', 'bool') and draw(st.integers(0, 3)) == 0:
                        mem['default'] = {'str': "'dflt'", 'int64': '42', 'bool': 'true'}[t]
                    if has_anno and draw(st.integers(0, 4)) == 0:
                        mem['annotations'].append([qname(modnames[0], 'note'), f'on {pname}'])
                    if draw(st.integers(0, 9)) == 0:
                        mem['readonly'] = True
                    members.append(mem)
                    myprops[pname] = t
                    if mem['card'] == 'multi':
                        multi_props.add(pname)
                elif r <= 6 and types:     # link
                    lname = f'l{j}'
                    if lname in myprops or lname in mylinks:
                        continue
                    tgt = draw(st.sampled_from([t[0] for t in types] + [q]))
                    mem = dict(kind='link', name=lname, target=tgt,
                               card=draw(st.sampled_from(['single', 'multi'])),
                               required=False, expr=None, default=None, constraints=[],
                               annotations=[], linkprops=[])
                    if rich and draw(st.integers(0, 1)) == 0:
                        lpt = draw(st.sampled_from(['str', 'str', 'int64']))
                        lpc = None
                        if lpt == 'str' and draw(st.booleans()):
                            lpc = "max_len_value(9) { errmessage := 'lp too long' }"
                        mem['linkprops'].append(['lp', lpt, lpc])
                    if draw(st.integers(0, 4)) == 0:
                        mem['on_target_delete'] = draw(st.sampled_from(
                            ['allow', 'delete source', 'deferred restrict']))
                    if mem['card'] == 'single' and draw(st.integers(0, 5)) == 0:
                        mem['constraints'].append('exclusive')
                    members.append(mem)
                    mylinks[lname] = tgt
                elif r == 7 and [x for x in myprops if x not in multi_props]:
                    # computed property over own single props
                    pn = draw(st.sampled_from(sorted(x for x in myprops if x not in multi_props)))
                    cname = f'c{j}'
                    if myprops[pn] == 'str':
                        expr = draw(st.sampled_from([f"len(.{pn})", f".{pn} ++ '!'", f'str_upper(.{pn})']))
                    elif myprops[pn] in ('int64', 'int32', 'int16'):
                        expr = draw(st.sampled_from([f'.{pn} + 1', f'.{pn} * 2', f'<str>.{pn}']))
                    else:
                        expr = f'.{pn}'
                    members.append(dict(kind='property', name=cname, target=None, card='single',
                                        required=False, expr=expr, default=None, constraints=[],
                                        annotations=[], linkprops=[]))
                elif r == 9 and [x for x in myprops if x not in multi_props]:
                    pn = draw(st.sampled_from(sorted(x for x in myprops if x not in multi_props)))
                    kind = draw(st.sampled_from(['index', 'constraint', 'policy']))
                    if kind == 'index':
                        members.append(dict(kind='index', text=f'.{pn}'))
                    elif kind == 'constraint' and myprops[pn] in ('str', 'int64'):
                        if myprops[pn] == 'int64':
                            members.append(dict(kind='constraint', text=f'expression on (.{pn} >= 0)'))
                        else:
                            members.append(dict(kind='constraint', text=f'exclusive on (.{pn})'))
                    elif kind == 'policy' and rich:
                        members.append(dict(kind='policy', name='ap',
                                            text=f'allow all using (exists .{pn})'))
            # object-level exclusive constraint on an own single str property
            own_str = [mm['name'] for mm in members if mm['kind'] == 'property'
                       and mm.get('target') == 'str' and mm.get('card') == 'single'
                       and mm.get('expr') is None]
            if own_str and draw(st.integers(0, 2)) == 0:
                pn = draw(st.sampled_from(own_str))
                if not any(mm['kind'] == 'constraint' and mm['text'] == f'exclusive on (.{pn})'
                           for mm in members):
                    members.append(dict(kind='constraint', text=f'exclusive on (.{pn})'))
            # overloaded pointer
            if inherited_props and rich and draw(st.integers(0, 3)) == 0:
                pn = draw(st.sampled_from(sorted(inherited_props)))
                if not any(mm.get('name') == pn for mm in members):
                    members.append(dict(kind='property', name=pn, target=inherited_props[pn],
                                        card=None, required=False, expr=None, default=None,
                                        overloaded=True, constraints=[],
                                        annotations=([[qname(modnames[0], 'note'), 'ovr']] if has_anno else []),
                                        linkprops=[]))
            if has_anno and draw(st.integers(0, 4)) == 0:
                members.append(dict(kind='annotation', name=qname(modnames[0], 'note'),
                                    value=f'type {name}'))
            mods[m].append(dict(kind='type', name=name, abstract=abstract, bases=bases,
                                members=members))
            types.append((q, name, abstract))
            anc_of[q] = set(bases).union(*[anc_of[b] for b in bases]) if bases else set()
            props_of[q] = {k: v for k, v in myprops.items()}
            multi_of[q] = set(multi_props)
            links_of[q] = dict(mylinks)
        # computeds that depend on name resolution / constraint-based inference
        if rich:
            decl_of0 = {qname(m, d['name']): (m, d) for m, ds in mods.items() for d in ds
                        if d['kind'] == 'type'}
            # (a) cast to a collection of a user scalar written by its *short* name
            for q0, (m0, d0) in sorted(decl_of0.items()):
                local_scalars = [dd for dd in mods[m0] if dd['kind'] == 'scalar']
                if local_scalars and draw(st.integers(0, 2)) == 0:
                    sc = draw(st.sampled_from(local_scalars))
                    nm = 'ccast_' + d0['name'].lower()
                    if nm not in (set(props_of.get(q0, {})) | set(links_of.get(q0, {}))) and \
                            not any(mm.get('name') == nm for mm in d0['members']):
                        expr = draw(st.sampled_from([
                            f"<array<{sc['name']}>>[]", f"<tuple<{sc['name']}, str>>{{}}",
                            f"<array<tuple<{sc['name']}, int64>>>[]"]))
                        d0['members'].append(dict(
                            kind='property', name=nm, target=None, card='single', required=False,
                            expr=expr, default=None, constraints=[], annotations=[], linkprops=[]))
            # (b) a declared-single computed link whose cardinality follows from
            #     an exclusive constraint (own, object-level or inherited)
            # make the shape frequent: an exclusive str property on a type that has subtypes
            # (property-level or object-level constraint), under a name no other type uses
            with_subs = sorted(q0 for q0 in decl_of0 if any(q0 in anc_of.get(q1, ()) for q1 in decl_of0))
            if decl_of0 and draw(st.integers(0, 1)) == 0:
                bq = draw(st.sampled_from(with_subs if (with_subs and draw(st.integers(0, 3)) > 0)
                                          else sorted(decl_of0)))
                d0 = decl_of0[bq][1]
                pn = 'uq_' + d0['name'].lower()
                if not any(mm.get('name') == pn for mm in d0['members']):
                    objlevel = draw(st.booleans())
                    d0['members'].append(dict(
                        kind='property', name=pn, target='str', card='single', required=False,
                        expr=None, default=None, constraints=([] if objlevel else ['exclusive']),
                        annotations=[], linkprops=[]))
                    if objlevel:
                        d0['members'].append(dict(kind='constraint', text=f'exclusive on (.{pn})'))
                    for q1 in decl_of0:
                        if q1 == bq or bq in anc_of.get(q1, ()):
                            props_of.setdefault(q1, {})[pn] = 'str'
            excl = []
            for q0, (m0, d0) in sorted(decl_of0.items()):
                for mm in d0['members']:
                    if mm['kind'] == 'property' and mm.get('target') == 'str' and \
                            'exclusive' in mm.get('constraints', []) and mm.get('card') == 'single':
                        excl.append((q0, mm['name']))
                    if mm['kind'] == 'constraint' and mm['text'].startswith('exclusive on (.'):
                        pn = mm['text'][len('exclusive on (.'):-1]
                        if props_of.get(q0, {}).get(pn) == 'str':
                            excl.append((q0, pn))
            # subtypes inherit the constraint
            for q0 in sorted(decl_of0):
                for (bq, pn) in list(excl):
                    if bq in anc_of.get(q0, set()) and (q0, pn) not in excl:
                        excl.append((q0, pn))
            # entries where the constraint is only inherited (declared on an ancestor)
            inherited_excl = [(q1, pn) for (q1, pn) in excl
                              if not any(mm.get('name') == pn or (mm['kind'] == 'constraint' and pn in mm['text'])
                                         for mm in decl_of0[q1][1]['members'])]
            for q0, (m0, d0) in sorted(decl_of0.items()):
                if excl and draw(st.integers(0, 1)) == 0:
                    if inherited_excl and draw(st.integers(0, 2)) > 0:
                        tq, pn = draw(st.sampled_from(sorted(inherited_excl)))
                    else:
                        tq, pn = draw(st.sampled_from(sorted(excl)))
                    nm = 'sel_' + d0['name'].lower()
                    if nm not in (set(props_of.get(q0, {})) | set(links_of.get(q0, {}))) and \
                            not any(mm.get('name') == nm for mm in d0['members']):
                        d0['members'].append(dict(
                            kind='link', name=nm, target=None, card='single', explicit_single=True,
                            required=False, expr=f"select {tq} filter .{pn} = 'root'",
                            default=None, constraints=[], annotations=[], linkprops=[]))
        # computed backlinks: on the target type of an existing link
        if rich:
            decl_of = {qname(m, d['name']): d for m, ds in mods.items() for d in ds
                       if d['kind'] == 'type'}
            all_links = [(tq, l, tg) for tq in sorted(links_of) for l, tg in sorted(links_of[tq].items())
                         if any(mm.get('name') == l for mm in decl_of[tq]['members'])]
            for tq, l, tg in all_links:
                if draw(st.integers(0, 3)) == 0 and tg in decl_of:
                    d = decl_of[tg]
                    nm = f'back_{l}'
                    if not any(mm.get('name') == nm for mm in d['members']):
                        d['members'].append(dict(
                            kind='link', name=nm, target=None, card='multi', required=False,
                            expr=f'.<{l}[is {tq}]', default=None, constraints=[],
                            annotations=[], linkprops=[]))
        # aliases / globals
        if rich and draw(st.integers(0, 2)) == 0:
            t = draw(st.sampled_from(types))
            mods[modnames[0]].append(dict(kind='alias', name='Al',
                                          expr=f'select {t[0]}'))
        if rich and draw(st.integers(0, 2)) == 0:
            g = draw(st.sampled_from([
                dict(kind='global', name='g1', type='str', default=None, expr=None),
                dict(kind='global', name='g1', type='int64', default='7', expr=None),
                dict(kind='global', name='g1', type=None, default=None,
                     expr=f'count({types[0][0]})'),
            ]))
            mods[modnames[0]].append(g)
        # drop empty modules other than default
        out = {'modules': {m: ds for m, ds in mods.items() if ds or m == 'default'}}
        _sanitize(out)
        return out
    return schemas()


def add_weak_family(schema, draw):
    """Declarations tied by a *weak* (order-preference only) dependency that closes a loop
    which is not a real cycle: `WA.wname := (assert_exists(WB)).title_` cannot be typed by the
    SDL tracer, so it prefers to come after every pointer called `title_`, including
    `WC.title_`, which really depends on `WA.wname` through 1-2 hard hops (function / global /
    direct).  Every declaration order must be accepted and give the same schema."""
    from hypothesis import strategies as st
    mods = schema['modules']
    if any(d['name'] in ('WA', 'WB', 'WC') for ds in mods.values() for d in ds):
        return False
    mnames = sorted(mods)
    m_a, m_b, m_c = (draw(st.sampled_from(mnames)) for _ in range(3))
    wrap = draw(st.sampled_from(['assert_exists', 'assert_single', 'assert_distinct']))
    hop = draw(st.sampled_from(['function', 'function', 'global', 'direct', 'function2']))
    wa = qname(m_a, 'WA')

    def prop(name, expr=None, target=None):
        return dict(kind='property', name=name, target=target, card=None, required=False, expr=expr,
                    default=None, constraints=[], annotations=[], linkprops=[])
    decl_a = dict(kind='type', name='WA', abstract=False, bases=[],
                  members=[prop('wname', expr=f"({wrap}({qname(m_b, 'WB')})).title_")])
    decl_b = dict(kind='type', name='WB', abstract=False, bases=[], members=[prop('title_', target='str')])
    extra = []
    if hop == 'function':
        cexpr = f"{qname(m_c, 'w_get')}()"
        extra.append((m_c, dict(kind='function', name='w_get', params='', ret='optional str',
                                body=f'assert_single({wa}.wname)')))
    elif hop == 'function2':
        cexpr = f"{qname(m_c, 'w_get2')}()"
        extra.append((m_c, dict(kind='function', name='w_get2', params='', ret='optional str',
                                body=f"{qname(m_a, 'w_get')}()")))
        extra.append((m_a, dict(kind='function', name='w_get', params='', ret='optional str',
                                body=f'assert_single({wa}.wname)')))
    elif hop == 'global':
        cexpr = f"global {qname(m_c, 'w_glob')}"
        extra.append((m_c, dict(kind='global', name='w_glob', type=None, default=None,
                                expr=f'assert_single({wa}.wname)')))
    else:
        cexpr = f'assert_single({wa}.wname)'
    decl_c = dict(kind='type', name='WC', abstract=False, bases=[], members=[prop('title_', expr=cexpr)])
    new = [(m_a, decl_a), (m_b, decl_b), (m_c, decl_c)] + extra
    # another same-named pointer elsewhere multiplies the weak edges
    if draw(st.booleans()):
        new.append((draw(st.sampled_from(mnames)),
                    dict(kind='type', name='WD', abstract=False, bases=[],
                         members=[prop('title_', target='str'), prop('wname', target='str')])))
    for m, d in new:
        pos = draw(st.integers(0, len(mods[m])))
        mods[m].insert(pos, d)
    return True


# ---------------------------------------------------------------- layouts

def dependent_pairs(schema):
    """[(modA, idxA, modB, idxB)] where decl A depends on decl B (textually)"""
    out = []
    decls = [(m, i, d) for m, ds in schema['modules'].items() for i, d in enumerate(ds)]
    for m, i, d in decls:
        text = render_decl(d)
        for m2, j, d2 in decls:
            if (m, i) == (m2, j):
                continue
            q = qname(m2, d2['name'])
            if q in text:
                out.append((m, i, m2, j))
    return out


def layout_strategy(schema):
    """permutations at module level, declaration level, splitting of module
    blocks and fully-qualified top-level declarations"""
    from hypothesis import strategies as st

    @st.composite
    def layouts(draw):
        items = []
        for m, ds in schema['modules'].items():
            idxs = draw(st.permutations(list(range(len(ds)))))
            mode = draw(st.integers(0, 3))
            if mode == 0 or len(idxs) < 2:
                items.append(('block', m, list(idxs)))
            elif mode == 1:   # split block in two
                k = draw(st.integers(1, len(idxs) - 1))
                items.append(('block', m, list(idxs[:k])))
                items.append(('block', m, list(idxs[k:])))
            else:             # some decls to top level, fully qualified
                k = draw(st.integers(1, len(idxs)))
                for i in idxs[:k]:
                    items.append(('top', m, i))
                if idxs[k:]:
                    items.append(('block', m, list(idxs[k:])))
        items = draw(st.permutations(items))
        return [list(x) for x in items]
    return layouts()


def permute_members(schema, draw):
    """return a copy with type-body members permuted"""
    from hypothesis import strategies as st
    s = copy.deepcopy(schema)
    for ds in s['modules'].values():
        for d in ds:
            if d['kind'] == 'type' and len(d.get('members', [])) > 1:
                d['members'] = list(draw(st.permutations(d['members'])))
    return s


# ---------------------------------------------------------------- mutation

def mutate(schema, draw):
    """1-3 edits; returns (new schema, [edit descriptions])"""
    from hypothesis import strategies as st
    s = copy.deepcopy(schema)
    edits = []
    n = draw(st.integers(1, 3))
    for _ in range(n):
        types = [(m, d) for m, ds in s['modules'].items() for d in ds if d['kind'] == 'type']
        if not types:
            break
        m, d = draw(st.sampled_from(types))
        multi_based = [(mm_, dd) for mm_, dd in types if len(dd['bases']) >= 2]
        forced = None
        if multi_based and draw(st.integers(0, 3)) == 0:
            # re-parent a type that already has several bases (positional insertion)
            m, d = draw(st.sampled_from(multi_based))
            forced = 'insert_two_bases'
        q = qname(m, d['name'])
        ptrs = [mm for mm in d['members'] if mm['kind'] in ('property', 'link')
                and not mm.get('overloaded')]
        kind = forced or draw(st.sampled_from([
            'add_prop', 'drop_member', 'rename_ptr', 'toggle_required', 'toggle_card',
            'retype', 'add_constraint', 'drop_constraint', 'add_index', 'set_default',
            'drop_default', 'rename_type', 'toggle_abstract', 'add_base', 'drop_base',
            'computed_to_stored', 'stored_to_computed', 'add_linkprop', 'drop_linkprop',
            'add_annotation', 'add_type', 'drop_type', 'change_expr', 'add_link',
            'change_errmessage', 'change_annotation_value', 'add_base', 'rebase_top',
            'change_errmessage', 'change_annotation_value', 'change_errmessage',
            'rebase_top', 'rename_ptr', 'toggle_required', 'insert_two_bases',
            'insert_two_bases']))
        if kind == 'add_prop':
            name = f'np{draw(st.integers(0, 3))}'
            if any(mm.get('name') == name for mm in d['members']):
                continue
            d['members'].append(dict(kind='property', name=name,
                                     target=draw(st.sampled_from(['str', 'int64', 'bool'])),
                                     card='single', required=False, expr=None, default=None,
                                     constraints=[], annotations=[], linkprops=[]))
        elif kind == 'add_link':
            name = f'nl{draw(st.integers(0, 2))}'
            if any(mm.get('name') == name for mm in d['members']):
                continue
            tm, td = draw(st.sampled_from(types))
            d['members'].append(dict(kind='link', name=name, target=qname(tm, td['name']),
                                     card=draw(st.sampled_from(['single', 'multi'])),
                                     required=False, expr=None, default=None,
                                     constraints=[], annotations=[], linkprops=[]))
        elif kind == 'drop_member' and d['members']:
            i = draw(st.integers(0, len(d['members']) - 1))
            d['members'].pop(i)
        elif kind == 'rename_ptr' and ptrs:
            mm = draw(st.sampled_from(ptrs))
            mm['name'] = mm['name'] + 'r'
        elif kind == 'toggle_required' and ptrs:
            mm = draw(st.sampled_from(ptrs))
            if mm.get('expr') is None:
                mm['required'] = not mm.get('required')
                if mm['required'] and mm.get('default') is None and mm['kind'] == 'property' \
                        and mm['target'] in ('str', 'int64', 'bool') and mm['card'] == 'single':
                    pass
        elif kind == 'toggle_card' and ptrs:
            mm = draw(st.sampled_from(ptrs))
            if mm.get('expr') is None:
                mm['card'] = 'multi' if mm['card'] == 'single' else 'single'
                if mm['card'] == 'multi':
                    mm['default'] = None
                    mm['constraints'] = [c for c in mm['constraints'] if c != 'exclusive']
        elif kind == 'retype' and ptrs:
            mm = draw(st.sampled_from(ptrs))
            if mm['kind'] == 'property' and mm.get('expr') is None and mm['target'] in ('int64', 'int32', 'int16'):
                mm['target'] = {'int16': 'int32', 'int32': 'int64', 'int64': 'bigint'}[mm['target']]
                mm['default'] = None
                mm['constraints'] = []
        elif kind == 'add_constraint' and ptrs:
            mm = draw(st.sampled_from(ptrs))
            if mm.get('expr') is None and mm['kind'] == 'property' and mm['card'] == 'single' \
                    and mm['target'] in ('str', 'int64') and 'exclusive' not in mm['constraints']:
                mm['constraints'].append('exclusive')
        elif kind == 'drop_constraint' and ptrs:
            mm = draw(st.sampled_from(ptrs))
            if mm['constraints']:
                mm['constraints'].pop()
        elif kind == 'add_index' and ptrs:
            mm = draw(st.sampled_from(ptrs))
            if mm['kind'] == 'property' and mm['card'] == 'single' and not any(
                    x['kind'] == 'index' and x['text'] == f".{mm['name']}" for x in d['members']):
                d['members'].append(dict(kind='index', text=f".{mm['name']}"))
        elif kind == 'set_default' and ptrs:
            mm = draw(st.sampled_from(ptrs))
            if mm['kind'] == 'property' and mm.get('expr') is None and mm['card'] == 'single' \
                    and mm['target'] in ('str', 'int64', 'bool'):
                mm['default'] = {'str': "'changed'", 'int64': '1', 'bool': 'false'}[mm['target']]
        elif kind == 'drop_default' and ptrs:
            mm = draw(st.sampled_from(ptrs))
            mm['default'] = None
        elif kind == 'rename_type':
            new = d['name'] + 'R'
            oldq, newq = q, qname(m, new)
            d['name'] = new
            _replace_refs(s, oldq, newq)
        elif kind == 'toggle_abstract':
            d['abstract'] = not d.get('abstract')
        elif kind == 'add_base':
            order = [qname(mm_, dd['name']) for mm_, dd in types]
            before = order[:order.index(q)]
            cands = [b for b in before if b not in d['bases']]
            if cands:
                b = draw(st.sampled_from(cands))
                # avoid pointer clashes: only add if no common member names
                bd = _find(s, b)
                if bd and not (_ptr_names(s, bd) & _ptr_names(s, d)):
                    d['bases'].append(b)
        elif kind == 'drop_base' and d['bases']:
            b = d['bases'].pop(draw(st.integers(0, len(d['bases']) - 1)))
            inherited = _ptr_names(s, _find(s, b)) if _find(s, b) else set()
            # members overloading / referring to inherited pointers go too
            d['members'] = [mm for mm in d['members'] if not (
                mm.get('overloaded') and mm.get('name') in inherited)]
        elif kind == 'computed_to_stored' and ptrs:
            mm = draw(st.sampled_from(ptrs))
            if mm.get('expr') is not None and mm['kind'] == 'property':
                mm['expr'] = None
                mm['target'] = 'str'
        elif kind == 'stored_to_computed' and ptrs:
            mm = draw(st.sampled_from(ptrs))
            if mm.get('expr') is None and mm['kind'] == 'property' and mm['target'] == 'str':
                mm.update(expr="'computed'", default=None, constraints=[], required=False,
                          card='single', readonly=False)
        elif kind == 'add_linkprop' and ptrs:
            mm = draw(st.sampled_from(ptrs))
            if mm['kind'] == 'link' and mm.get('expr') is None and not mm['linkprops']:
                mm['linkprops'].append(['lp', 'str'])
        elif kind == 'drop_linkprop' and ptrs:
            mm = draw(st.sampled_from(ptrs))
            if mm['kind'] == 'link' and mm['linkprops']:
                mm['linkprops'].pop()
        elif kind == 'add_annotation':
            annos = [(mm_, dd) for mm_, ds in s['modules'].items() for dd in ds
                     if dd['kind'] == 'annotation']
            if annos and not any(x['kind'] == 'annotation' for x in d['members']):
                am, ad = annos[0]
                d['members'].append(dict(kind='annotation', name=qname(am, ad['name']),
                                         value='added'))
        elif kind == 'change_errmessage':
            done = False
            for mm in d['members']:
                if done:
                    break
                if mm['kind'] in ('property', 'link'):
                    for i, c in enumerate(mm.get('constraints', [])):
                        if 'errmessage' in c:
                            mm['constraints'][i] = c.replace("errmessage := '", "errmessage := 'new ")
                            done = True
                            break
                    for lpe in mm.get('linkprops', []):
                        if not done and len(lpe) > 2 and lpe[2] and 'errmessage' in lpe[2]:
                            lpe[2] = lpe[2].replace("errmessage := '", "errmessage := 'new ")
                            done = True
            if not done:
                continue
        elif kind == 'change_annotation_value':
            done = False
            for mm in d['members']:
                if mm['kind'] == 'annotation':
                    mm['value'] = mm['value'] + '!'
                    done = True
                    break
                if mm.get('annotations'):
                    mm['annotations'][0][1] += '!'
                    done = True
                    break
                for i, c in enumerate(mm.get('constraints', []) if mm['kind'] in ('property', 'link') else []):
                    if 'annotation std::description' in c:
                        mm['constraints'][i] = c.replace("description := '", "description := 'x")
                        done = True
                        break
                if done:
                    break
            if not done:
                continue
        elif kind == 'rebase_top':
            # give the root of the deepest inheritance chain a new base
            order = [qname(mm_, dd['name']) for mm_, dd in types]
            roots = [(mm_, dd) for mm_, dd in types if not dd['bases']
                     and any(qname(mm_, dd['name']) in x['bases'] for _, x in types)]
            if not roots:
                continue
            rm, rd = draw(st.sampled_from(roots))
            rq = qname(rm, rd['name'])
            desc = {rq}
            ch = True
            while ch:
                ch = False
                for mm_, dd in types:
                    qq = qname(mm_, dd['name'])
                    if qq not in desc and set(dd['bases']) & desc:
                        desc.add(qq)
                        ch = True
            names_in_family = set()
            for mm_, dd in types:
                if qname(mm_, dd['name']) in desc:
                    names_in_family |= _ptr_names(s, dd)
            cands = [(mm_, dd) for mm_, dd in types if qname(mm_, dd['name']) not in desc
                     and not (_ptr_names(s, dd) & names_in_family)
                     and not any(b in desc for b in dd['bases'])]
            if cands:
                bm, bd = draw(st.sampled_from(cands))
                # the new base must be declared before the root in our model
                rd['bases'].append(qname(bm, bd['name']))
            else:
                nm = 'Named'
                if not any(dd['name'] == nm for dd in s['modules'][rm]) and 'nm' not in names_in_family:
                    s['modules'][rm].insert(0, dict(kind='type', name=nm, abstract=True, bases=[],
                        members=[dict(kind='property', name='nm', target='str', card='single',
                                      required=False, expr=None, default=None,
                                      constraints=['exclusive'], annotations=[], linkprops=[]),
                                 dict(kind='index', text='.nm')]))
                    rd['bases'].append(qname(rm, nm))
        elif kind == 'insert_two_bases':
            # positional re-parenting: X before the first base, Y in the middle
            if not d['bases'] or any(dd['name'] in ('MixX', 'MixY') for dd in s['modules'][m]):
                continue
            fam = _ptr_names(s, d)
            if fam & {'mx', 'my', 'shared'}:
                continue
            for nm, pn, dv in (('MixX', 'mx', 'from X'), ('MixY', 'my', 'from Y')):
                s['modules'][m].insert(0, dict(kind='type', name=nm, abstract=True, bases=[],
                    members=[dict(kind='property', name=pn, target='str', card='single',
                                  required=False, expr=None, default=f"'{dv}'",
                                  constraints=[], annotations=[], linkprops=[])]))
            nb = [qname(m, 'MixX')] + d['bases'][:1] + [qname(m, 'MixY')] + d['bases'][1:]
            d['bases'] = nb
        elif kind == 'add_type':
            name = f'N{draw(st.integers(0, 2))}'
            if any(dd['name'] == name for dd in s['modules'][m]):
                continue
            s['modules'][m].append(dict(kind='type', name=name, abstract=False,
                                        bases=[q] if draw(st.booleans()) else [],
                                        members=[dict(kind='property', name='z', target='str',
                                                      card='single', required=False, expr=None,
                                                      default=None, constraints=[], annotations=[],
                                                      linkprops=[])] if not any(
                                            mm.get('name') == 'z' for mm in d['members']) else []))
        elif kind == 'drop_type':
            _drop_type(s, m, d)
        elif kind == 'change_expr' and ptrs:
            mm = draw(st.sampled_from(ptrs))
            if mm.get('expr') is not None and mm['kind'] == 'property' and '.<' not in mm['expr']:
                mm['expr'] = f"<str>({mm['expr']}) ++ 'x'"
        edits.append(kind)
    _sanitize(s)
    return s, edits


def _find(s, q):
    for m, ds in s['modules'].items():
        for d in ds:
            if qname(m, d['name']) == q:
                return d
    return None


def _ptr_names(s, d, seen=None):
    seen = seen or set()
    out = {mm['name'] for mm in d.get('members', []) if 'name' in mm
           and mm['kind'] in ('property', 'link')}
    for b in d.get('bases', []):
        if b not in seen:
            seen.add(b)
            bd = _find(s, b)
            if bd:
                out |= _ptr_names(s, bd, seen)
    return out


def _replace_refs(s, oldq, newq):
    def fix(text):
        return text.replace(oldq + ']', newq + ']').replace(oldq + ' ', newq + ' ') \
            if isinstance(text, str) else text
    for ds in s['modules'].values():
        for d in ds:
            if d['kind'] == 'type':
                d['bases'] = [newq if b == oldq else b for b in d['bases']]
                for mm in d['members']:
                    if mm.get('target') == oldq:
                        mm['target'] = newq
                    if isinstance(mm.get('expr'), str) and oldq in mm['expr']:
                        mm['expr'] = mm['expr'].replace(oldq, newq)
            elif d['kind'] in ('alias', 'global') and isinstance(d.get('expr'), str):
                d['expr'] = d['expr'].replace(oldq, newq)


def _drop_type(s, m, d):
    q = qname(m, d['name'])
    s['modules'][m] = [x for x in s['modules'][m] if x is not d]
    for ds in s['modules'].values():
        for x in ds:
            if x['kind'] == 'type':
                x['bases'] = [b for b in x['bases'] if b != q]


def _sanitize(s):
    """remove members / declarations that refer to things that no longer exist
    (keeps the value valid by construction after edits)"""
    changed = True
    while changed:
        changed = False
        known = {qname(m, d['name']) for m, ds in s['modules'].items() for d in ds}
        for m, ds in s['modules'].items():
            for d in list(ds):
                if d['kind'] == 'type':
                    nb = [b for b in d['bases'] if b in known]
                    if nb != d['bases']:
                        d['bases'] = nb
                        changed = True
                    all_ptrs = _ptr_names(s, d)
                    keep = []
                    for mm in d['members']:
                        ok = True
                        if mm['kind'] == 'link' and mm.get('expr') is None and mm['target'] not in known:
                            ok = False
                        if mm['kind'] == 'property' and mm.get('expr') is None and '::' in str(mm.get('target')) \
                                and mm['target'] not in known:
                            ok = False
                        if mm.get('overloaded') and mm['name'] not in (
                                _ptr_names(s, dict(d, members=[])) ):
                            ok = False
                        if isinstance(mm.get('expr'), str):
                            ok = ok and _expr_ok(s, d, mm['expr'], all_ptrs - {mm['name']}, known)
                        if mm['kind'] in ('index', 'constraint', 'policy') and 'text' in mm:
                            ok = ok and _expr_ok(s, d, mm['text'], all_ptrs, known)
                        for a in mm.get('annotations', []):
                            if a[0] not in known:
                                ok = False
                        if mm['kind'] == 'annotation' and mm['name'] not in known:
                            ok = False
                        if ok:
                            keep.append(mm)
                        else:
                            changed = True
                    d['members'] = keep
                    # duplicate member names
                    seen = set()
                    uniq = []
                    for mm in d['members']:
                        key = (mm['kind'], mm.get('name', mm.get('text')))
                        if key in seen:
                            changed = True
                            continue
                        seen.add(key)
                        uniq.append(mm)
                    d['members'] = uniq
                elif d['kind'] in ('alias', 'global') and isinstance(d.get('expr'), str):
                    if not _expr_ok(s, None, d['expr'], set(), known):
                        ds.remove(d)
                        changed = True


def _expr_ok(s, d, expr, ptrs, known):
    import re
    for q in re.findall(r'[A-Za-z_]\w*::\w+', expr):
        if q not in known and not q.startswith(('std::', 'cfg::')):
            return False
    for p in re.findall(r'(?<![\w>])\.(\w+)', expr):
        if d is not None and p not in ptrs:
            return False
    for l, tq in re.findall(r'\.<(\w+)\[is ([\w:]+)\]', expr):
        td = _find(s, tq)
        if td is None or l not in _ptr_names(s, td):
            return False
    return True


def mutate_small(schema, draw):
    """exactly one small, deeply nested edit: the errmessage of a constraint (on a pointer or on a
    link property), the value of an annotation (on a type, on a pointer, on a constraint).  Used to
    generate migrations whose only difference sits several levels below a top-level object."""
    from hypothesis import strategies as st
    s = copy.deepcopy(schema)
    sites = []
    for m, ds in s['modules'].items():
        for d in ds:
            if d['kind'] != 'type':
                continue
            for mm in d['members']:
                if mm['kind'] == 'annotation':
                    sites.append(('type-annotation', mm, None))
                if mm['kind'] in ('property', 'link'):
                    for i, c in enumerate(mm.get('constraints', [])):
                        if "errmessage := '" in c:
                            sites.append(('ptr-constraint-errmessage', mm, i))
                        if "description := '" in c:
                            sites.append(('ptr-constraint-annotation', mm, i))
                    for a in mm.get('annotations', []):
                        sites.append(('ptr-annotation', a, None))
                    for lpe in mm.get('linkprops', []):
                        if len(lpe) > 2 and lpe[2] and "errmessage := '" in lpe[2]:
                            sites.append(('linkprop-constraint-errmessage', lpe, None))
    if not sites:
        return s, []
    kind, obj, i = sites[draw(st.integers(0, len(sites) - 1))]
    if kind == 'type-annotation':
        obj['value'] = obj['value'] + '!'
    elif kind == 'ptr-constraint-errmessage':
        obj['constraints'][i] = obj['constraints'][i].replace("errmessage := '", "errmessage := 'new ")
    elif kind == 'ptr-constraint-annotation':
        obj['constraints'][i] = obj['constraints'][i].replace("description := '", "description := 'x")
    elif kind == 'ptr-annotation':
        obj[1] += '!'
    elif kind == 'linkprop-constraint-errmessage':
        obj[2] = obj[2].replace("errmessage := '", "errmessage := 'new ")
    return s, ['small:' + kind]


def ensure_deep_sites(schema, draw):
    """make sure the schema has deeply nested small things to edit: a constraint with an
    annotation on a str property, a link property with a constraint that has an errmessage"""
    from hypothesis import strategies as st
    s = copy.deepcopy(schema)
    for _m, ds in s['modules'].items():
        for d in ds:
            if d['kind'] != 'type':
                continue
            for mm in d['members']:
                if mm['kind'] == 'property' and mm.get('target') == 'str' and mm.get('expr') is None \
                        and not mm.get('overloaded') and not any('description' in c for c in mm['constraints']):
                    if draw(st.integers(0, 1)):
                        mm['constraints'].append(
                            "min_len_value(1) { annotation std::description := 'nonempty' }")
                if mm['kind'] == 'link' and mm.get('expr') is None and not mm.get('overloaded') \
                        and not mm.get('linkprops') and draw(st.integers(0, 1)):
                    mm['linkprops'].append(['lp', 'str', "max_len_value(9) { errmessage := 'lp too long' }"])
    return s


def add_multi_base_family(schema, draw):
    """add (to the first module) a self-contained family with multiple inheritance:
    FA {fa}, FB {fb}, optionally FC0 {fc}, and FC extending FA, FB[, FC0]; pointer names are
    fresh, so nothing conflicts.  Used to reach re-parenting with several positional insertions."""
    from hypothesis import strategies as st
    s = copy.deepcopy(schema)
    m = sorted(s['modules'])[0]
    if any(d['name'] in ('FA', 'FB', 'FC') for d in s['modules'][m]):
        return s

    def prop(n, dv):
        return dict(kind='property', name=n, target='str', card='single', required=False, expr=None,
                    default=f"'{dv}'", constraints=[], annotations=[], linkprops=[])
    bases = ['FA', 'FB'] + (['FC0'] if draw(st.booleans()) else [])
    for b in bases:
        s['modules'][m].append(dict(kind='type', name=b, abstract=draw(st.booleans()), bases=[],
                                    members=[prop('f' + b[1:].lower(), 'from ' + b),
                                             prop('shared_' + b[1:].lower(), b)]))
    s['modules'][m].append(dict(kind='type', name='FC', abstract=False,
                                bases=[qname(m, b) for b in bases],
                                members=[prop('own', 'c')]))
    return s
