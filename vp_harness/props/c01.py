"""C01 — EdgeQL text survives a print / re-parse round trip.

Generated:
  * G-CORPUS  every snippet of tests/test_edgeql_syntax.py and
    tests/test_schema_syntax.py, every statement of edb/lib/**/*.edgeql, every
    tests/schemas/*.esdl document;
  * G-EXPR    random expression / statement texts from a text grammar that
    covers every binary, unary and postfix operator of precedence.py with
    *random* explicit parenthesisation, all literal kinds, quoted identifiers,
    clauses (FILTER/ORDER BY/OFFSET/LIMIT, WITH, FOR, GROUP, UNLESS CONFLICT),
    shapes and DML;
  * G-SPLICE  corpus statements whose expression holes are replaced by G-EXPR
    expressions (text level, via AST spans);
  each x printer modes (pretty on/off, uppercase on/off; sdlmode for SDL).

Oracle: parse(t0)=a1; t1=print(a1); a2=parse(t1) must succeed and
canon(a1)==canon(a2); print(a2)==t1 byte for byte.
"""
from __future__ import annotations

import ast as pyast
import glob
import os

from vp_harness import env
from vp_harness import core

ID = 'C01'
LEVEL = 'exploration'
RULE = (
    'case = (entry point, text, printer mode). Texts the parser rejects are outside '
    'the domain (counted as skipped). Non-trivial = accepted text whose AST has >=3 '
    'nodes; distinct by hash of (entry, canonical AST, mode). Buckets of failures are '
    'keyed by (failure kind, innermost differing AST field path / error message class).')
ASSUMPTIONS = [
    'LR tables are produced by the harness LR generator from the repository grammar; '
    'the lexer and LR driver are the repository Rust code',
    'in SDL mode the order of declarations inside a body is not significant (SDL is '
    'declarative; the printer sorts them)',
]
MIN_EVALS = {'quick': 4000, 'thorough': 60000}

_S = {}


def _setup():
    if _S:
        return _S
    from edb import errors
    from edb.edgeql import parser as qlparser, codegen as qlcodegen, ast as qlast
    from edb.edgeql.parser.grammar import tokens as gt
    from vp_harness.oracles import qlcanon
    qlparser.preload_spec()
    _S.update(errors=errors, qlparser=qlparser, qlcodegen=qlcodegen, qlast=qlast,
              gt=gt, qlcanon=qlcanon)
    _S['corpus'] = _load_corpus()
    return _S


def preload():
    _setup()


ENTRY_TOKEN = {
    'block': 'T_STARTBLOCK', 'fragment': 'T_STARTFRAGMENT',
    'sdl': 'T_STARTSDLDOCUMENT', 'migration': 'T_STARTMIGRATION',
    'extension': 'T_STARTEXTENSION',
}
MODES = [dict(pretty=True), dict(pretty=False), dict(pretty=True, uppercase=True),
         dict(pretty=False, uppercase=True)]


def _parse(entry, text):
    S = _S
    tok = getattr(S['gt'], ENTRY_TOKEN[entry])
    if entry in ('migration', 'extension'):
        text = '{' + text + '}'
    return S['qlparser'].parse(tok, text)


def _print(entry, tree, mode):
    gen = _S['qlcodegen'].generate_source
    if entry == 'sdl':
        return gen(tree, sdlmode=True, **mode)
    if entry == 'block':
        return gen(list(tree), **mode)
    if entry in ('migration', 'extension'):
        block, fields = tree
        cmds = list(fields) + list(block.commands)
        return gen(cmds, **mode)
    return gen(tree, **mode)


def roundtrip(entry, text, mode):
    """-> (status, sig, detail, canon1) ; status in ok/reject/fail"""
    S = _S
    errors = S['errors']
    qc = S['qlcanon']
    try:
        a1 = _parse(entry, text)
    except errors.EdgeQLSyntaxError:
        return 'reject', None, None, None
    except errors.EdgeDBError as e:
        return 'reject', None, None, None
    except RecursionError:
        return 'reject', None, None, None
    except RuntimeError as e:
        if type(e).__name__ == 'RustPanic':
            # the input is not accepted (the parser's error recovery panics on it): outside the
            # property, which speaks about accepted texts; counted by the caller as rejected
            return 'reject', None, None, None
        raise
    sdl = entry == 'sdl'
    c1 = qc.canon(a1, sdl=sdl)
    try:
        t1 = _print(entry, a1, mode)
    except RecursionError:
        return 'reject', None, None, None
    except Exception as e:
        return ('fail', f'print-raised:{type(e).__name__}:{_msgclass(str(e))}',
                f'printing the parsed program raised {type(e).__name__}: {e}', c1)
    try:
        a2 = _parse(entry, t1)
    except errors.EdgeDBError as e:
        tag = ''
        import re as _re
        if 'ORDER BY' in str(e) and _re.search(r'(`order`|\(\s*order\s*\))\s*\)*\s*by\b', text, _re.I) \
                and _re.search(r'(?<![`\w])order\s+by\b', t1, _re.I):
            # root cause tag: an identifier spelled `order` ends the USING clause of a GROUP
            # statement; printed bare, the lexer merges it with the following BY
            tag = ':identifier-order-merged-with-by'
        if not tag and _re.search(r'[(,]\s*\w+\s*:=\s*(insert|update|delete|select|for|with|group)\b', t1, _re.I) \
                and _re.search(r'\b(index|constraint|annotation)\b', t1, _re.I):
            # root cause tag: a statement used directly as a named argument of an index /
            # constraint in DDL is printed without the parentheses the grammar requires there
            tag = ':unparenthesized-statement-argument'
        if not tag and _re.search(r'\.\s*`\d+`', text) and _re.search(r'\.\d+\[is\b', t1):
            # root cause tag: a pointer whose (quoted) name is all digits is printed bare before a
            # type intersection, where the grammar reads a tuple index
            tag = ':numeric-pointer-name-unquoted'
        return ('fail', f'reparse-rejected:{_msgclass(str(e))}{tag}',
                f'printed text is rejected by the parser: {type(e).__name__}: {e}\n'
                f'--- printed text ---\n{t1[:1500]}', c1)
    except RecursionError:
        return 'reject', None, None, None
    except RuntimeError as e:
        if type(e).__name__ == 'RustPanic':
            return ('fail', 'reparse-panic:' + _msgclass(str(e)),
                    f'the parser panicked on the printed text: {e}\n{t1[:800]}', c1)
        raise
    c2 = qc.canon(a2, sdl=sdl)
    if c1 != c2:
        d = qc.first_diff(c1, c2)
        return ('fail', f'ast-differs:{_lastseg(d[0]) if d else "?"}',
                f're-parsed program differs at {d[0] if d else "?"}: '
                f'{d[1] if d else ""} -> {d[2] if d else ""}\n'
                f'--- printed text ---\n{t1[:1500]}', c1)
    try:
        t2 = _print(entry, a2, mode)
    except Exception as e:
        return ('fail', f'print2-raised:{type(e).__name__}',
                f'printing the re-parsed program raised {e!r}', c1)
    if t2 != t1:
        kind = ('whitespace-only' if ''.join(t1.split()) == ''.join(t2.split())
                else 'content')
        import re as _re2
        if kind == 'content' and _re2.search(r'using\s+edgeql\s+\$', text, _re2.I):
            # root cause tag: the body of `USING EdgeQL $$ ... $$` is copied as raw text by the first
            # print and printed from the parsed expression by the second
            kind += ':legacy-using-edgeql-text'
        return ('fail', 'not-idempotent:' + kind,
                f'second print differs from the first:\n{_textdiff(t1, t2)}', c1)
    return 'ok', None, None, c1


def _lastseg(path):
    # root-cause bucket: the innermost differing `Class.field`
    segs = [x for x in path.replace('[]', '').split('/') if x]
    return segs[-1] if segs else path


def _msgclass(msg):
    import re
    msg = msg.split('\n')[0]
    # keep short keyword-like quoted parts (they identify the construct)
    msg = re.sub(r"'([^']*)'",
                 lambda m: m.group(0) if m.group(1).isalpha() and len(m.group(1)) <= 12
                 and m.group(1).isupper() else "'_'", msg)
    msg = re.sub(r'`[^`]*`', '`_`', msg)
    msg = re.sub(r'\d+', 'N', msg)
    return msg[:70]


def _textdiff(a, b):
    import difflib
    return '\n'.join(list(difflib.unified_diff(
        a.split('\n'), b.split('\n'), lineterm='', n=1))[:30])


# ---- corpus ----------------------------------------------------------------

def _docstring_cases(path):
    out = []
    try:
        tree = pyast.parse(open(path).read())
    except OSError:
        return out
    for cls in tree.body:
        if not isinstance(cls, pyast.ClassDef):
            continue
        for fn in cls.body:
            if isinstance(fn, pyast.FunctionDef) and fn.name.startswith('test_'):
                doc = pyast.get_docstring(fn, clean=False)
                if doc:
                    s = doc.partition('\n% OK %')[0].partition('\n% ERROR %')[0]
                    out.append((fn.name, s))
    return out


def _load_corpus():
    repo = str(env.REPO)
    corpus = []   # (entry, name, text)
    for name, s in _docstring_cases(repo + '/tests/test_edgeql_syntax.py'):
        corpus.append(('block', name, s))
    for name, s in _docstring_cases(repo + '/tests/test_schema_syntax.py'):
        corpus.append(('sdl', name, s))
    for f in sorted(glob.glob(repo + '/tests/schemas/*.esdl')):
        try:
            corpus.append(('sdl', os.path.basename(f), open(f).read()))
        except OSError:
            pass
    # statements of the standard library, cut by span
    qlparser = _S['qlparser']
    for f in sorted(glob.glob(repo + '/edb/lib/**/*.edgeql', recursive=True)):
        try:
            src = open(f).read()
            stmts = qlparser.parse_block(src)
        except Exception:
            continue
        for i, st in enumerate(stmts):
            sp = getattr(st, 'span', None)
            if sp is None:
                continue
            corpus.append(('block', f'{os.path.basename(f)}#{i}',
                           src[sp.start:sp.end] + ';'))
    return corpus


# ---- text grammar ----------------------------------------------------------

BINOPS = ['or', 'and', '=', '!=', '?=', '?!=', '<', '>', '<=', '>=', 'in', 'not in',
          'like', 'not like', 'ilike', 'not ilike', 'union', 'except', 'intersect',
          '??', '+', '-', '*', '/', '//', '%', '^', '++']
UNOPS = ['-', '+', 'not', 'exists', 'distinct', 'detached']
IDENTS = ['x', 'User', 'name', 'friends', 'default::Foo', '`select`', '`a b`',
          'std::len', 'count', '__type__', 'é', 'Ab_1', '`back``tick`', 'n']
TYPES = ['int64', 'str', 'std::str', 'array<int64>', 'tuple<int64, str>',
         'tuple<a: int64, b: str>', 'User', 'default::Foo', 'optional str',
         'required int64', '`weird type`', 'range<int64>']


def _strategies():
    from hypothesis import strategies as st

    ident = st.sampled_from(IDENTS)
    shortid = st.sampled_from(['x', 'User', 'name', 'friends', 'n', '`a b`'])
    literal = st.one_of(
        st.integers(0, 3).map(str), st.sampled_from(
            ['9223372036854775807', '1_000', '1.5', '1e5', '.5e-3' if False else '0.5e-3',
             '10n', '1.5n', '1e3n', 'true', 'false', "''", "'a'", '"q"', "'it\\'s'",
             "r'raw\\n'", '$$dollar$$', "'multi\\nline'", "b'bytes'", "b'\\x00\\xff'",
             '$0', '$name', '$`p q`', '<int64>$1', '<optional str>$opt', '{}',
             "'\\u00e9'", "'\\x41'", '"dq\'s"',
             # escapes the printer has to reproduce: bidirectional controls, line separators
             "'a\\u202eb\\u202c'", "'\\u2066x\\u2069'", "'\\u2028'", "'\\u200b\\ufeff'", "'\\r\\t\\b\\f'",
             # interpolated strings (fragments go through their own escaping path)
             "'pre \\(1) mid \\('in') post'", "'\\(.name)'", "'it\\'s \\(x)!'", '"dq \\(x ++ "y") z"',
             "'bidi: \\u202e\\(.name)\\u202c!'", "'nl\\n\\(1)\\ttab\\u00e9'", "'\\(1)\\(2)'",
             "'nested \\('a \\(1) b') end'", "'$ \\(1) $$ \\\\'"]))
    path = st.one_of(
        ident,
        st.tuples(shortid, st.sampled_from(['.', '.<', '@', '?.'] if False else ['.', '.<']),
                  shortid).map(lambda t: t[0] + t[1] + t[2]),
        st.tuples(shortid, shortid).map(lambda t: f'{t[0]}.{t[1]}@n'),
        st.tuples(shortid, shortid).map(lambda t: f'{t[0]}.<{t[1]}[is User]'),
        st.tuples(shortid, st.sampled_from(TYPES[:8])).map(lambda t: f'{t[0]}[is {t[1]}]'),
        st.sampled_from(['.name', '.friends.name', '.<friends[is User]', '@n', '__source__',
                         '__subject__', '__new__', '__old__', '__specified__', 'x.0', 'x.0.1',
                         'x.a.b', '(x).name', 'global cur', 'global default::cur',
                         '.friends@n', 'User.friends[is default::Foo].name']),
    )
    leaf = st.one_of(literal, path, path)

    def wrap(s, draw_paren):
        return f'({s})' if draw_paren else s

    def extend(child):
        p = st.booleans()
        binop = st.tuples(child, st.sampled_from(BINOPS), child, p, p, p).map(
            lambda t: wrap(f'{wrap(t[0], t[3])} {t[1]} {wrap(t[2], t[4])}', t[5]))
        # chains of one operator, explicitly left- or right-nested (catches
        # associativity assumptions of the printer)
        chain = st.tuples(st.sampled_from(BINOPS), child, child, child,
                          st.booleans()).map(
            lambda t: (f'(({t[1]}) {t[0]} ({t[2]})) {t[0]} ({t[3]})' if t[4]
                       else f'({t[1]}) {t[0]} (({t[2]}) {t[0]} ({t[3]}))'))
        mixed = st.tuples(st.sampled_from(BINOPS), st.sampled_from(BINOPS),
                          child, child, child, st.booleans()).map(
            lambda t: (f'({t[2]} {t[0]} {t[3]}) {t[1]} {t[4]}' if t[5]
                       else f'{t[2]} {t[0]} ({t[3]} {t[1]} {t[4]})'))
        unop = st.tuples(st.sampled_from(UNOPS), child, p).map(
            lambda t: f'{t[0]} {wrap(t[1], t[2])}')
        cast = st.tuples(st.sampled_from(TYPES), child, p).map(
            lambda t: f'<{t[0]}>{wrap(t[1], t[2])}')
        isop = st.tuples(child, st.sampled_from(['is', 'is not']),
                         st.sampled_from(TYPES[:8] + ['User | default::Foo',
                                                      '(User | default::Foo)',
                                                      'User & default::Foo', 'typeof x']), p).map(
            lambda t: f'{wrap(t[0], t[3])} {t[1]} {t[2]}')
        ifelse = st.one_of(
            st.tuples(child, child, child).map(lambda t: f'{t[0]} if {t[1]} else {t[2]}'),
            st.tuples(child, child, child).map(lambda t: f'if {t[0]} then {t[1]} else {t[2]}'),
            st.tuples(child, child, child, child, child).map(
                lambda t: f'({t[0]}) if ({t[1]}) else ({t[2]}) if ({t[3]}) else ({t[4]})'))
        index = st.tuples(child, child, st.sampled_from(['[{}]', '[{}:]', '[:{}]', '[1:{}]']), p).map(
            lambda t: wrap(t[0], t[3]) + t[2].format(t[1]))
        coll = st.one_of(
            st.lists(child, max_size=3).map(lambda l: '{' + ', '.join(l) + '}'),
            st.lists(child, max_size=3).map(lambda l: '[' + ', '.join(l) + ']'),
            st.lists(child, min_size=1, max_size=3).map(
                lambda l: '(' + ', '.join(l) + (',' if len(l) == 1 else '') + ')'),
            st.lists(child, min_size=1, max_size=3).map(
                lambda l: '(' + ', '.join(f'f{i} := {e}' for i, e in enumerate(l)) + ')'))
        call = st.one_of(
            st.tuples(st.sampled_from(['count', 'std::len', 'array_agg', 'default::f', '`odd fn`']),
                      st.lists(child, max_size=2)).map(
                lambda t: f'{t[0]}({", ".join(t[1])})'),
            st.tuples(child, child).map(lambda t: f'f({t[0]}, named := {t[1]})'),
            st.tuples(child).map(lambda t: f'sum({t[0]} order by .name)') if False else
            st.tuples(child).map(lambda t: f'to_str({t[0]}, fmt := \'x\')'))
        shape_el = st.one_of(
            st.sampled_from(['name', 'friends', '@n', 'friends: {name}', '[is User].name',
                             'friends: {name, @n} filter .name = \'a\' order by .name limit 1',
                             '*', '**', 'User.*' if False else '[is User].*']),
            child.map(lambda e: f'c := {e}'),
            child.map(lambda e: f'multi m := {e}'),
            child.map(lambda e: f'required single s := {e}'),
            child.map(lambda e: f'friends := {e}'),
            child.map(lambda e: f'friends += {e}'),
            child.map(lambda e: f'friends -= {e}'),
            child.map(lambda e: f'friends: {{name}} filter {e}'))
        shape = st.tuples(st.sampled_from(['User', 'x', '(select User)', 'default::Foo', '']),
                          st.lists(shape_el, min_size=1, max_size=3)).map(
            lambda t: f'{t[0]} {{ {", ".join(t[1])} }}')
        clause = st.tuples(
            st.one_of(st.none(), child), st.one_of(st.none(), child),
            st.one_of(st.none(), child), st.one_of(st.none(), child),
            st.sampled_from(['', ' asc', ' desc', ' asc empty first', ' desc empty last']))
        select = st.tuples(st.one_of(child, shape), clause).map(
            lambda t: '(select ' + t[0]
            + (f' filter {t[1][0]}' if t[1][0] else '')
            + (f' order by {t[1][1]}{t[1][4]}' if t[1][1] else '')
            + (f' offset {t[1][2]}' if t[1][2] else '')
            + (f' limit {t[1][3]}' if t[1][3] else '') + ')')
        withb = st.tuples(child, child, st.sampled_from(
            ['with a := {}, ', 'with module default, a := {}, ', 'with m as module std, a := {}, '])).map(
            lambda t: '(' + t[2].rstrip(', ').format(t[0]) + ' select ' + t[1] + ')')
        forq = st.one_of(
            st.tuples(child, child).map(lambda t: f'(for v in {t[0]} union {t[1]})'),
            st.tuples(child, child).map(lambda t: f'(for v in {t[0]} union ({t[1]}))'),
            st.tuples(child, child).map(lambda t: f'(for optional v in {t[0]} select {t[1]})'))
        dml = st.one_of(
            st.tuples(st.lists(shape_el.filter(lambda s: ':=' in s), min_size=0, max_size=2)).map(
                lambda t: '(insert User' + (' { ' + ', '.join(t[0]) + ' }' if t[0] else '') + ')'),
            st.tuples(child, child).map(
                lambda t: f'(insert User {{ name := {t[0]} }} unless conflict on .name else ({t[1]}))'),
            st.tuples(child).map(lambda t: f'(insert User {{ name := {t[0]} }} unless conflict)'),
            st.tuples(child, child).map(
                lambda t: f'(update User filter {t[0]} set {{ name := {t[1]} }})'),
            st.tuples(child, child).map(
                lambda t: f'(delete User filter {t[0]} order by {t[1]} limit 1)'))
        group = st.tuples(child, child).map(
            lambda t: f'(group User {{name}} using k := {t[0]} by k, .name)')
        return st.one_of(binop, binop, chain, mixed, unop, cast, isop, ifelse, index, coll, call,
                         shape, select, withb, forq, dml, group)

    expr = st.recursive(leaf, extend, max_leaves=12)
    stmt = st.one_of(
        expr.map(lambda e: ('fragment', e)),
        expr.map(lambda e: ('fragment', 'select ' + e)),
        st.lists(expr, min_size=1, max_size=3).map(
            lambda l: ('block', ''.join(f'select {e};\n' for e in l))),
        expr.map(lambda e: ('block', f'create function default::f(a: int64, named only b: str = \'x\') -> set of str using ({e});')),
        expr.map(lambda e: ('block', f'create type Foo {{ create property p := ({e}); create constraint expression on ({e}); create index on ({e}); }};')),
        expr.map(lambda e: ('block', f'alter type Foo {{ alter property p {{ set default := ({e}); }}; create access policy ap allow select using ({e}); }};')),
        expr.map(lambda e: ('block', f'create alias A := ({e}); create global g -> str {{ set default := ({e}) }};')),
        expr.map(lambda e: ('sdl', f'module default {{ type Foo {{ property p := ({e}); constraint expression on ({e}); index on ({e}); access policy ap allow all using ({e}); }}; alias A := ({e}); function f(a: int64) -> str using ({e}); }}')),
        expr.map(lambda e: ('migration', f'create type T {{ create property p := ({e}) }}; set message := \'m\';')),
        expr.map(lambda e: ('block', f'configure session set singleprop := ({e}); set alias m as module std; set module default; reset alias *;')),
        # statement kinds and name positions outside expressions
        st.tuples(expr, shortid).map(lambda t: ('block', f'select {t[1]} := {t[0]}; with w := 1 select {t[1]} := ({t[0]}) filter {t[1]};')),
        st.tuples(expr, st.sampled_from(['', '(buffers := true) ', '(execute := false, buffers := true) '])).map(
            lambda t: ('block', f'analyze {t[1]}select {t[0]}; analyze {t[1]}insert User {{ name := {t[0]} }};')),
        st.tuples(expr, shortid).map(lambda t: ('block', f'administer vacuum({t[1]}, full := {t[0]}); administer statistics_update();')),
        st.tuples(shortid, shortid).map(
            lambda t: ('block', f'start transaction; declare savepoint {t[0]}; rollback to savepoint {t[0]}; '
                                f'release savepoint {t[1]}; start transaction isolation serializable, read only, deferrable; commit; rollback;')),
        st.tuples(shortid, shortid, st.sampled_from(['', ' force'])).map(
            lambda t: ('block', f'create empty branch {t[0]}; create schema branch {t[0]} from {t[1]}; create data branch {t[0]} from {t[1]}; '
                                f'alter branch {t[0]}{t[2]} rename to {t[1]}; drop branch {t[0]}{t[2]}; drop database {t[1]}; create database {t[0]};')),
        st.tuples(shortid, shortid).map(
            lambda t: ('block', f'set alias {t[0]} as module {t[1]}; reset alias {t[0]}; set module {t[1]}; reset module;')),
        st.tuples(expr, st.sampled_from(['-1', '-1.5', '-2n', '(-1)', '+1'])).map(
            lambda t: ('block', f'select (for v in ({t[1]}) union ({t[0]})); for v in ({t[1]}) union (v);')),
        st.tuples(shortid, st.sampled_from(['object', 'type', 'function', 'module', 'link', 'property', 'scalar type', 'alias',
                                            'constraint', 'annotation', 'global'])).map(
            lambda t: ('block', f'describe {t[1]} {t[0]} as sdl; describe {t[1]} {t[0]} as text verbose; describe schema as ddl;')),
    )
    return expr, stmt


def _nontrivial(c1):
    return c1 is not None and _S['qlcanon'].count_nodes(c1) >= 3


def _one(rec, entry, name, text, mode_idx, origin):
    mode = MODES[mode_idx % len(MODES)]
    status, sig, detail, c1 = roundtrip(entry, text, mode)
    case = {'entry': entry, 'text': text, 'mode': mode, 'origin': origin}
    if status == 'reject':
        rec.evaluations += 1
        rec.skip('rejected-input:' + origin)
        return
    key = (entry, core.case_hash(repr(c1)), mode_idx % len(MODES))
    rec.case(case, nontrivial=_nontrivial(c1), key=key,
             classes=[f'entry:{entry}', f'origin:{origin}',
                      'mode:' + ','.join(k for k, v in mode.items() if v) or 'mode:plain'],
             sample={'entry': entry, 'text': text[:300], 'mode': mode})
    if status == 'fail':
        rec.violation(sig, case, detail)


QUOTED_IDENTS = ['`a b`', '`union`', '`select`', '`if`', '`x-y`', '`1st`', '`with`', '`a``b`', '`order`', '`Group By`']


def requote(text, pick):
    """-> the text with every occurrence of 1-2 of its plain identifiers replaced by an identifier
    that needs quoting (spaces, reserved keywords, leading digit, embedded back-quote), or None.
    `pick(n)` returns an int in [0, n).  Token kinds and spans come from the repository lexer;
    keywords (also unreserved ones) and already quoted identifiers are left alone."""
    import edb._edgeql_parser as P
    try:
        r = P.tokenize(text)
    except Exception:
        return None
    if getattr(r, 'errors', None):
        return None
    b = text.encode('utf-8')
    by_name: dict = {}
    for t in r.out:
        j = t._j
        if j.get('kind') == 'Ident' and not j['text'].startswith('`') and not j['text'].startswith('__'):
            by_name.setdefault(j['text'], []).append((j['span']['start'], j['span']['end']))
    if not by_name:
        return None
    names = sorted(by_name)
    chosen = {names[pick(len(names))]: QUOTED_IDENTS[pick(len(QUOTED_IDENTS))]}
    if len(names) > 1 and pick(3) == 0:
        chosen.setdefault(names[pick(len(names))], QUOTED_IDENTS[pick(len(QUOTED_IDENTS))])
    edits = sorted(((a, e, q) for nm, q in chosen.items() for a, e in by_name[nm]), reverse=True)
    for a, e, q in edits:
        b = b[:a] + q.encode() + b[e:]
    return b.decode('utf-8')


def shard(rec, idx, nshards, seed, tier):
    S = _setup()
    corpus = S['corpus']
    # corpus: every snippet, all four modes spread over shards
    k = 0
    for entry, name, text in corpus:
        for m in range(len(MODES) if tier == 'thorough' else 2):
            k += 1
            if k % nshards == idx:
                _one(rec, entry, name, text, m * (1 if tier == 'thorough' else 2) + 0, 'corpus')
    expr, stmt = _strategies()
    n = 250 if tier == 'quick' else 6000
    from hypothesis import strategies as st

    def body(c):
        (entry, text), m = c
        _one(rec, entry, None, text, m, 'generated')

    core.run_given(st.tuples(stmt, st.integers(0, 3)), body,
                   seed=seed * 1000 + idx, max_examples=n)
    # identifiers that need quoting, in every position the corpus and the grammar reach
    nq = 200 if tier == 'quick' else 5000
    mine = [c for i_, c in enumerate(corpus) if i_ % nshards == idx and len(c[2]) < 4000]

    def body_q(c):
        which, (entry, gtext), picks, m = c
        if which < 3 and mine:
            entry, _n, text = mine[picks[0] % len(mine)]
        else:
            text = gtext
        it = iter(picks[1:] + [0] * 8)
        q = requote(text, lambda n_: next(it) % n_)
        if q is not None and q != text:
            _one(rec, entry, None, q, m, 'requoted')
    core.run_given(st.tuples(st.integers(0, 3), stmt, st.lists(st.integers(0, 10 ** 6), min_size=6, max_size=6),
                             st.integers(0, 3)),
                   body_q, seed=seed * 1000 + idx + 700, max_examples=nq)
    # splice generated expressions into corpus statements
    from hypothesis import strategies as st2
    holes = _holes(corpus, idx, nshards)
    if holes:
        def body2(c):
            h, e, m = c
            entry, text, (a, b) = holes[h % len(holes)]
            _one(rec, entry, None, text[:a] + '(' + e + ')' + text[b:], m, 'splice')
        core.run_given(st2.tuples(st2.integers(0, 10 ** 6), expr, st2.integers(0, 3)),
                       body2, seed=seed * 1000 + idx + 500,
                       max_examples=120 if tier == 'quick' else 3000)
    if tier == 'thorough' or os.environ.get('VERIF_FUZZ_RUNS'):
        _fuzz_stage(rec, idx, nshards, seed)


def _fuzz_stage(rec, idx, nshards, seed):
    """thorough tier: coverage-guided token-level fuzzing (vp_harness/fuzz_c01.py) in a
    subprocess; its failure buckets are merged like any other violation"""
    import json
    import subprocess
    import sys
    try:
        import atheris  # noqa: F401
    except Exception:
        rec.skip('fuzz-stage-unavailable:atheris-not-installed')
        return
    d = core.VERIF / '.cache' / 'fuzz'
    d.mkdir(parents=True, exist_ok=True)
    out = d / f'c01-{os.getpid()}-{idx}.json'
    envv = dict(os.environ)
    envv.pop('LD_PRELOAD', None)          # libFuzzer manages its own memory
    runs = int(os.environ.get('VERIF_FUZZ_RUNS', '15000'))
    subprocess.run([sys.executable, '-m', 'vp_harness.fuzz_c01', str(out), str(seed * 1000 + idx),
                    str(runs), str(idx), str(nshards)],
                   cwd=str(core.VERIF), env=envv, stdout=subprocess.DEVNULL, stderr=subprocess.DEVNULL)
    try:
        res = json.loads(out.read_text())
    except Exception:
        rec.skip('fuzz-stage-produced-no-result')
        return
    finally:
        import shutil
        shutil.rmtree(str(out) + '.corpus', ignore_errors=True)
        for f in core.VERIF.glob('crash-*'):
            f.unlink()
    try:
        out.unlink()
    except OSError:
        pass
    st = res['stats']
    rec.evaluations += st['accepted']
    rec.classes['origin:fuzz'] += st['accepted']
    rec.skipped['rejected-input:fuzz'] += st['execs'] - st['accepted']
    rec.extra['fuzz_execs'] = rec.extra.get('fuzz_execs', 0) + st['execs']
    rec.extra['fuzz_distinct_accepted_asts'] = rec.extra.get('fuzz_distinct_accepted_asts', 0) + \
        res.get('distinct_accepted', 0)
    rec.nontrivial_enum += res.get('distinct_accepted', 0)
    for sig, b in res['buckets'].items():
        rec.violation(sig, b['case'], b['detail'])


def _holes(corpus, idx, nshards):
    """(entry, text, (start, end)) for expression nodes inside corpus block snippets"""
    S = _S
    qlast = S['qlast']
    from edb.common import ast as cast
    out = []
    for i, (entry, name, text) in enumerate(corpus):
        if entry != 'block' or i % nshards != idx or len(text) > 600:
            continue
        try:
            trees = _parse(entry, text)
        except Exception:
            continue
        for node in trees:
            for sub in cast.find_children(node, qlast.Expr, lambda n: isinstance(n, (
                    qlast.BinOp, qlast.FunctionCall, qlast.Constant, qlast.Path))):
                sp = getattr(sub, 'span', None)
                if sp is not None and 0 <= sp.start < sp.end <= len(text):
                    out.append((entry, text, (sp.start, sp.end)))
                if len(out) > 400:
                    return out
    return out


def replay(case):
    _setup()
    status, sig, detail, _ = roundtrip(case['entry'], case['text'], case['mode'])
    if status == 'fail':
        return f'{sig}: {detail}'
    return None


def shrink(case, sig):
    _setup()
    import edb._edgeql_parser as P

    def fails(c):
        st, s, _, _ = roundtrip(c['entry'], c['text'], c['mode'])
        return st == 'fail' and s == sig

    def simplify(c):
        # token-level ddmin
        r = P.tokenize(c['text'])
        if r.errors:
            return
        toks = [t._j['text'] for t in r.out if t._j['kind'] != 'EOI']
        for sub in core.list_simplify(toks):
            yield dict(c, text=' '.join(sub))
        if c['mode'] != {'pretty': True}:
            yield dict(c, mode={'pretty': True})
    return core.greedy_shrink(case, fails, simplify, budget_s=45, max_steps=3000)
