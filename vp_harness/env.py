"""Environment: substrate + cached std schema + server compiler helpers."""
from __future__ import annotations

import hashlib
import os
import pathlib
import pickle
import sys
import uuid

VERIF = pathlib.Path(__file__).resolve().parent.parent
sys.path.insert(0, str(VERIF / 'substrate'))
sys.path.insert(0, str(VERIF))

import shim  # noqa: E402  (installs the native stand-ins)

REPO = pathlib.Path(shim.REPO)
CACHE = VERIF / '.cache'


def tree_hash() -> str:
    """SHA-256 over the content of every file under <repo>/edb."""
    h = hashlib.sha256()
    root = REPO / 'edb'
    for dirpath, dirnames, filenames in os.walk(root):
        dirnames[:] = sorted(d for d in dirnames if d != '__pycache__')
        for fn in sorted(filenames):
            if fn.endswith(('.pyc', '.so', '.bc', '.log')):
                continue
            p = os.path.join(dirpath, fn)
            h.update(os.path.relpath(p, root).encode())
            h.update(b'\0')
            try:
                with open(p, 'rb') as f:
                    h.update(hashlib.sha256(f.read()).digest())
            except OSError:
                pass
    return h.hexdigest()[:24]


_std_loaded = False


def load_std():
    """Load (or build and cache) std + reflection schema into edb.testbase.lang
    globals.  The cache key is the content hash of the tree, so a cache hit is
    equivalent to a rebuild."""
    global _std_loaded
    from edb.testbase import lang as tb
    if _std_loaded:
        return tb
    key = tree_hash()
    d = CACHE / key
    f = d / 'std.pickle'
    if f.exists():
        try:
            with open(f, 'rb') as fh:
                std, refl, layout = pickle.load(fh)
            tb._std_schema = std
            tb._refl_schema = refl
            tb._schema_class_layout = layout
            _std_loaded = True
            return tb
        except Exception:
            pass
    tb._load_std_schema()
    tb._load_reflection_schema()
    d.mkdir(parents=True, exist_ok=True)
    tmp = d / f'std.pickle.{os.getpid()}'
    with open(tmp, 'wb') as fh:
        pickle.dump(
            (tb._std_schema, tb._refl_schema, tb._schema_class_layout), fh)
    os.replace(tmp, f)
    # keep only the 3 most recent cache entries
    try:
        ents = sorted(
            (p for p in CACHE.iterdir() if p.is_dir()),
            key=lambda p: p.stat().st_mtime, reverse=True)
        import shutil
        for p in ents[3:]:
            shutil.rmtree(p, ignore_errors=True)
    except OSError:
        pass
    _std_loaded = True
    return tb


def new_compiler():
    tb = load_std()
    return tb.new_compiler()


class Req:
    """Duck-typed stand-in for rpc.CompilationRequest (Cython)."""

    def __init__(self, text, *, modaliases=None, session_config=None,
                 protocol_version=None, output_format=None,
                 inline_typeids=False, inline_typenames=False,
                 inline_objectids=True, expect_one=False, implicit_limit=0):
        from edb import edgeql
        from edb.server import defines
        from edb.server.compiler import enums
        self.source = edgeql.Source.from_string(text)
        self.input_language = enums.InputLanguage.EDGEQL
        self.protocol_version = protocol_version or defines.CURRENT_PROTOCOL
        self.output_format = output_format or enums.OutputFormat.BINARY
        self.input_format = enums.InputFormat.BINARY
        self.expect_one = expect_one
        self.implicit_limit = implicit_limit
        self.inline_typeids = inline_typeids
        self.inline_typenames = inline_typenames
        self.inline_objectids = inline_objectids
        self.modaliases = modaliases
        self.session_config = session_config
        self.role_name = 'admin'
        self.branch_name = 'main'

    def get_cache_key(self):
        return uuid.uuid4()


def user_schema_from_sdl(sdl_text: str):
    """-> (user FlatSchema, reflection cache) for an SDL document, built by the server
    compiler itself (START MIGRATION TO / POPULATE / COMMIT on an empty database);
    cached per (tree hash, text)."""
    import immutables
    tb = load_std()
    key = hashlib.sha256(sdl_text.encode()).hexdigest()[:16]
    f = CACHE / tree_hash() / f'user-{key}.pickle'
    if f.exists():
        try:
            with open(f, 'rb') as fh:
                return pickle.load(fh)
        except Exception:
            pass
    from edb.schema import schema as s_schema
    from edb.server import compiler as edbcompiler
    from edb.server.compiler import compiler as cmod
    from edb import edgeql
    compiler = tb.new_compiler()
    ctx = edbcompiler.new_compiler_context(
        compiler_state=compiler.state, user_schema=s_schema.EMPTY_SCHEMA,
        modaliases={None: 'default'})
    body = sdl_text.strip()
    if body.endswith(';'):
        body = body[:-1]
    cmod.compile(ctx=ctx, source=edgeql.Source.from_string(
        f'start migration to {{ {body} }}; populate migration; commit migration;'))
    tx = ctx.state.current_tx()
    res = (tx.get_user_schema(), tx.get_cached_reflection())
    f.parent.mkdir(parents=True, exist_ok=True)
    tmp = f.with_suffix(f'.{os.getpid()}')
    with open(tmp, 'wb') as fh:
        pickle.dump(res, fh)
    os.replace(tmp, f)
    return res
