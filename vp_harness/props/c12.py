"""C12 — statically inferred result types match evaluated values.

Two generated streams:

(a) queries x conforming database instances over the schema of gen/query.py, evaluated
    by the reference model (edb/tools/toy_eval_model.py, adapted as in C06): every value
    produced must belong to compile_ast_to_ir(q).stype - scalar kind (str / int64 / bool /
    float64), tuple and array structure recursively, object type (the object's type must
    be the inferred type or one of its descendants; for union types one of the components).

(b) typed numeric / collection expressions over *all* numeric types (int16/32/64, float32/64,
    bigint, decimal) plus str and bool: literals and casts, + - * // with small operands,
    set constructors, arrays, tuples, named tuples, ??, IF/ELSE, UNION, min / max / sum /
    count / array_agg, DISTINCT, subscripting, and paths through unions of object types
    whose same-named property has different numeric types ({N16, N32, NBig}.v ...), with
    every holder type storing the extreme value of its type.  The harness evaluates the
    expression itself with exact Python arithmetic; every resulting value must be
    representable in the inferred type (integer ranges, integrality, float range,
    collection structure).  The type reported to clients is checked too: the output
    descriptor of the server compiler, decoded by the independent decoder of C14, must
    name the inferred type.
"""
from __future__ import annotations

import decimal
import pickle

from vp_harness import core, env, schemaenv as SE
from vp_harness.gen import query as Q
from vp_harness.oracles import toyeval as TE

ID = 'C12'
LEVEL = 'exploration'
RULE = (
    'case = (a) query + instance or (b) typed expression. Non-trivial = accepted and evaluated, and (a) the result '
    'is non-empty and the query has at least two operators, or (b) the expression mixes at least two different '
    'numeric types or puts a set operator / collection constructor over operands of different types; distinct by text '
    '(+ instance).')
ASSUMPTIONS = [
    'stream (a): reference semantics = toy_eval_model (harness-adapted as in C06); its values are untyped Python '
    'values, so only kind / structure / object type are judged there',
    'stream (b): the harness evaluates the generated expression itself (exact Python arithmetic over small operands; '
    'extreme values only flow through type-preserving constructs); a value belongs to a type iff it is representable '
    'in it (int ranges, integrality, float32/float64 range, any int for bigint, any finite decimal for decimal)',
]
MIN_EVALS = {'quick': 4000, 'thorough': 150000}

NUM_SDL = '''
module default {
    type N16 { required v: int16; }
    type N32 { required v: int32; }
    type N64 { required v: int64; }
    type NBig { required v: bigint; }
    type NF32 { required v: float32; }
    type NF64 { required v: float64; }
    type NDec { required v: decimal; }
    type SStr { required v: str; }
    scalar type small extending int64 { constraint max_value(10); }
    scalar type tiny16 extending int16 { constraint max_value(5); }
    type NSmall { required v: small; }
};
'''
D = decimal.Decimal
HOLDER = {
    'N16': ('int16', 32767), 'N32': ('int32', 2147483647), 'N64': ('int64', 9223372036854775807),
    'NBig': ('bigint', 10 ** 30), 'NF32': ('float32', 3.0e38), 'NF64': ('float64', 1e300),
    'NDec': ('decimal', D('1e400')), 'SStr': ('str', 'zz'), 'NSmall': ('small', 7),
}
INT_RANGE = {'std::int16': (-2 ** 15, 2 ** 15 - 1), 'std::int32': (-2 ** 31, 2 ** 31 - 1),
             'std::int64': (-2 ** 63, 2 ** 63 - 1)}
USER_SCALARS = {'default::small': ('std::int64', 10), 'default::tiny16': ('std::int16', 5)}
_S: dict = {}


def preload():
    if _S:
        return _S
    SE.setup()
    from edb import errors
    from edb.edgeql import compiler as qlcompiler, parser as qlparser
    from edb.schema import types as s_types, objtypes as s_objtypes
    qlparser.preload_spec()
    schema = SE.migrate(SE.setup()['std'], Q.SCHEMA_SDL.strip().rstrip(';'))
    info = Q.introspect(schema)
    TE.setup(info, schema)
    nschema = SE.migrate(SE.setup()['std'], NUM_SDL.strip().rstrip(';'))
    _S.update(errors=errors, qlcompiler=qlcompiler, qlparser=qlparser, s_types=s_types,
              s_objtypes=s_objtypes, schema=schema, info=info, nschema=nschema)
    return _S


def _server():
    """lazily: server compiler over the numeric schema (for the client-facing descriptor)"""
    if 'compiler' not in _S:
        import immutables
        from edb.schema import schema as s_schema
        us, refl = env.user_schema_from_sdl(NUM_SDL)
        _S.update(compiler=env.new_compiler(), us=us, refl=refl, E=immutables.Map(), s_schema=s_schema)
    return _S


def compile_ir(text, schema):
    S = preload()
    return S['qlcompiler'].compile_ast_to_ir(
        S['qlparser'].parse_query(text), schema,
        options=S['qlcompiler'].CompilerOptions(modaliases={None: 'default'}))


# ----------------------------------------------------------------------
# membership

def type_tree(t, schema):
    """schema type -> ('scalar', name) | ('array', T) | ('tuple', [T]) | ('namedtuple', [(n, T)]) |
    ('object', {names}) """
    S = preload()
    st = S['s_types']
    schema, mt = t.material_type(schema)
    if isinstance(mt, st.Array):
        return ('array', type_tree(mt.get_element_type(schema), schema))
    if isinstance(mt, st.Tuple):
        els = list(mt.iter_subtypes(schema))
        if mt.is_named(schema):
            return ('namedtuple', [(n, type_tree(x, schema)) for n, x in els])
        return ('tuple', [type_tree(x, schema) for _, x in els])
    if isinstance(mt, S['s_objtypes'].ObjectType):
        from edb.schema import utils as s_utils
        names = set()
        for d in s_utils.expand_type_expr_descendants(mt, schema):
            names.add(str(d.get_name(schema)).replace('default::', ''))
        return ('object', names)
    base = mt
    if str(mt.get_name(schema)) in USER_SCALARS:
        return ('scalar', str(mt.get_name(schema)))
    # other user scalar subtypes / enums: judge by the topmost concrete base
    while True:
        bases = base.get_bases(schema).objects(schema)
        if not bases or str(bases[0].get_name(schema)).startswith('std::any'):
            break
        base = bases[0]
    return ('scalar', str(base.get_name(schema)))


def belongs(v, tt, objtype_of=None):
    """-> None if v belongs to the type tree, else a reason"""
    k = tt[0]
    if k == 'scalar':
        name = tt[1]
        if name in USER_SCALARS:
            base, mx = USER_SCALARS[name]
            r = belongs(v, ('scalar', base), objtype_of)
            if r:
                return r
            return None if v <= mx else f'{v} violates the constraint max_value({mx}) of {name}'
        if name == 'std::bool':
            return None if isinstance(v, bool) else f'{v!r} is not a bool'
        if isinstance(v, bool):
            return f'a bool where {name} is inferred'
        if name == 'std::str':
            return None if isinstance(v, str) else f'{v!r} is not a str'
        if name in INT_RANGE:
            if isinstance(v, int) or (isinstance(v, (float, D)) and v == int(v)):
                lo, hi = INT_RANGE[name]
                return None if lo <= int(v) <= hi else f'{v} is outside the range of {name}'
            return f'{v!r} is not an integer but {name} is inferred'
        if name == 'std::bigint':
            if isinstance(v, int) or (isinstance(v, (float, D)) and v == int(v)):
                return None
            return f'{v!r} is not an integer but bigint is inferred'
        if name == 'std::float32':
            if isinstance(v, (int, float)) and abs(float(v)) <= 3.4028235e38:
                return None
            return f'{v!r} is not representable as float32'
        if name == 'std::float64':
            if isinstance(v, (int, float)) and abs(v) <= 1.7976931348623157e308:
                return None
            if isinstance(v, D):
                return f'a decimal value {v} where float64 is inferred'
            return f'{v!r} is not representable as float64'
        if name == 'std::decimal':
            return None if isinstance(v, (int, D)) else f'{v!r} (float) where decimal is inferred'
        return None     # other scalars are not produced by the generators
    if k == 'array':
        if not isinstance(v, list):
            return f'{v!r} is not an array'
        for x in v:
            r = belongs(x, tt[1], objtype_of)
            if r:
                return 'array element: ' + r
        return None
    if k in ('tuple', 'namedtuple'):
        els = tt[1] if k == 'tuple' else [t for _, t in tt[1]]
        if isinstance(v, dict):
            v = tuple(v.values())
        if not isinstance(v, tuple) or len(v) != len(els):
            return f'{v!r} is not a {len(els)}-tuple'
        for x, t in zip(v, els):
            r = belongs(x, t, objtype_of)
            if r:
                return 'tuple element: ' + r
        return None
    if k == 'object':
        if objtype_of is None:
            return None
        ot = objtype_of(v)
        if ot is None:
            return f'{v!r} is not an object'
        if ot == 'FreeObject':
            return None
        return None if ot in tt[1] else f'an object of type {ot} where {sorted(tt[1])} is inferred'
    return None


# ----------------------------------------------------------------------
# stream (b): typed expressions with exact evaluation

NUMT = ['int16', 'int32', 'int64', 'bigint', 'float32', 'float64', 'decimal']
USERT = {'small': 'int64', 'tiny16': 'int16'}     # user scalar subtype -> parent
# implicit casts as documented in docs/reference/reference/edgeql/casts.csv ('impl' cells)
IMPLICIT = {
    'int16': {'int32', 'int64', 'float32', 'float64', 'bigint', 'decimal'},
    'int32': {'int64', 'float64', 'bigint', 'decimal'},
    'int64': {'float64', 'bigint', 'decimal'},
    'float32': {'float64'},
    'float64': set(),
    'bigint': {'decimal'},
    'decimal': set(),
}


def lub(types):
    """the documented common type of a set of numeric types: the type every operand can be
    implicitly cast to (or is), itself castable to every other such candidate; None if there is
    none; '?' if an operand type is unknown"""
    ts = [t for t in types]
    if any(t is None or t == '?' for t in ts):
        return '?'
    ts = set(ts)
    if len(ts) == 1:
        return next(iter(ts))
    # a user scalar subtype is implicitly castable to its parent (and on from there)
    ts = {USERT.get(t, t) for t in ts}
    cands = [c for c in NUMT if all(t == c or c in IMPLICIT[t] for t in ts)]
    if not cands:
        return None
    best = [c for c in cands if all(c == d or d in IMPLICIT[c] for d in cands)]
    return best[0] if len(best) == 1 else '?'



EXP_LITS = [   # (text, documented type, value): the n suffix gives bigint unless there is a
    # fractional part or a negative exponent, then decimal; without suffix an exponent means float64
    ('1e3n', 'bigint', 1000), ('1e-2n', 'decimal', D('0.01')), ('5e-1n', 'decimal', D('0.5')),
    ('25e-1n', 'decimal', D('2.5')), ('1.5e-2n', 'decimal', D('0.015')), ('1e-2', 'float64', 0.01),
    ('1e3', 'float64', 1000.0), ('2e0n', 'bigint', 2), ('1.0e1n', 'decimal', D('10')),
]


def _base(t):
    return USERT.get(t, t)


def _arr_el(types):
    """element type of an array literal: the common type of the elements; with two or more
    elements a scalar subtype is generalised to its base type (observed, consistent behaviour)"""
    t = lub(types)
    return _base(t) if len(types) >= 2 else t


def lit(ty, n):
    """small literal n (1..3) of numeric type ty -> (text, python value)"""
    if ty in USERT:
        return f'<{ty}>{n}', n
    if ty == 'int64':
        return str(n), n
    if ty == 'float64':
        return f'{n}.5', n + 0.5
    if ty == 'bigint':
        return f'{n}n', n
    if ty == 'decimal':
        return f'{n}.5n', D(f'{n}.5')
    if ty == 'float32':
        return f'<float32>{n}.5', n + 0.5
    return f'<{ty}>{n}', n


class EG:
    """expression generator: every method returns (text, values:list, features)"""

    def __init__(self, draw):
        from hypothesis import strategies as st
        self.draw, self.st = draw, st
        self.types = set()
        self.feats = set()
        self.doc_type = None
        self.tmap = {}      # expression text -> documented static type (numeric name, None, or '?')

    def i(self, lo, hi):
        return self.draw(self.st.integers(lo, hi))

    def pick(self, seq):
        return seq[self.i(0, len(seq) - 1)]

    def reg(self, text, ty, vals):
        self.tmap[text] = ty
        return text, vals

    def ty(self, text):
        return self.tmap.get(text, '?')

    def atom(self, allow_extreme=True):
        c = self.i(0, 5)
        if c <= 2 or not allow_extreme:
            r = self.i(0, 9)
            if r == 0:
                t, ty, v = self.pick(EXP_LITS)
                self.types.add(ty)
                self.feats.add('exponent-literal')
                return self.reg(t, ty, [v])
            ty = self.pick(NUMT + ['small', 'tiny16']) if r <= 2 else self.pick(NUMT)
            self.types.add(ty)
            if ty in USERT:
                self.feats.add('user-scalar')
            t, v = lit(ty, self.i(1, 3))
            return self.reg(t, ty, [v])
        if c == 3:
            h = self.pick([k for k in HOLDER if k != 'SStr'])
            self.types.add(HOLDER[h][0])
            self.feats.add('holder-path')
            if h == 'NSmall':
                self.feats.add('user-scalar')
            return self.reg(f'{h}.v', HOLDER[h][0], [HOLDER[h][1]])
        if c == 4:
            # a path through a union of holder types
            hs = [self.pick([k for k in HOLDER if k != 'SStr']) for _ in range(self.i(2, 3))]
            hs = list(dict.fromkeys(hs))
            for h in hs:
                self.types.add(HOLDER[h][0])
            self.feats.add('union-pointer')
            form = self.i(0, 2)
            ut = lub([HOLDER[h][0] for h in hs])
            vals = [HOLDER[h][1] for h in hs]
            if form == 0:
                return self.reg('{' + ', '.join(hs) + '}.v', ut, vals)
            if form == 1:
                return self.reg('(' + ' union '.join(hs) + ').v', ut, vals)
            return self.reg('(select {' + ', '.join(hs) + '}).v', ut, vals)
        ty = self.pick(NUMT)
        self.types.add(ty)
        cast = {'int16': 'int16', 'int32': 'int32', 'int64': 'int64', 'bigint': 'bigint',
                'float32': 'float32', 'float64': 'float64', 'decimal': 'decimal'}[ty]
        self.feats.add('empty-set')
        return self.reg(f'<{cast}>{{}}', ty, [])

    def expr(self, depth, allow_extreme=True):
        """a numeric set expression"""
        if depth <= 0:
            return self.atom(allow_extreme)
        c = self.i(0, 11)
        if c <= 1:
            return self.atom(allow_extreme)
        if c == 2:
            # arithmetic on small singleton operands only
            a, av = self.small(depth - 1)
            b, bv = self.small(depth - 1)
            op = self.pick(['+', '-', '*', '//', '%', '/'])
            self.feats.add('arith' if op in '+-*' else 'arith-div')
            rt = lub([_base(self.ty(a)), _base(self.ty(b))])
            if op == '/':
                # true division: exact (decimal) for bigint / decimal operands, floating otherwise;
                # the documentation gives no per-type table, so only the values are judged.
                # Divisor 2: every quotient below is exact in float32 as well.
                b, bv = self.reg('2', 'int64', [2]) if rt not in ('bigint', 'decimal') else self.reg('2n', 'bigint', [2])
                try:
                    if rt in ('bigint', 'decimal'):
                        vals = [D(str(x)) / D(2) for x in av]
                    elif rt in (None, '?'):
                        vals = None
                    else:
                        vals = [float(x) / 2.0 for x in av]
                except TypeError:
                    vals = None
                self.tmap[f'({a} / {b})'] = '?'
                return f'({a} / {b})', vals
            try:
                import operator
                f = {'+': operator.add, '-': operator.sub, '*': operator.mul,
                     '//': operator.floordiv, '%': operator.mod}[op]
                vals = [f(x, y) for x in av for y in bv]
            except TypeError:
                vals = None     # decimal with float: the compiler must reject
            # operators are defined on the base types: a subtype operand is generalised
            return self.reg(f'({a} {op} {b})', rt, vals)
        if c == 3:
            parts = [self.expr(depth - 1, allow_extreme) for _ in range(self.i(2, 3))]
            self.feats.add('set-constructor')
            return self.reg('{' + ', '.join(t for t, _ in parts) + '}', lub([self.ty(t) for t, _ in parts]),
                            _cat(parts))
        if c == 4:
            a, b = self.expr(depth - 1, allow_extreme), self.expr(depth - 1, allow_extreme)
            self.feats.add('union')
            return self.reg(f'({a[0]} union {b[0]})', lub([self.ty(a[0]), self.ty(b[0])]), _cat([a, b]))
        if c == 5:
            a, b = self.expr(depth - 1, allow_extreme), self.expr(depth - 1, allow_extreme)
            self.feats.add('coalesce')
            av, bv = _unwrap(a[1]), _unwrap(b[1])
            self.tmap[f'({a[0]} ?? {b[0]})'] = lub([self.ty(a[0]), self.ty(b[0])])
            if av is None or bv is None:
                return f'({a[0]} ?? {b[0]})', None
            # the left side may be a LIMITed subset: either side can show up
            return f'({a[0]} ?? {b[0]})', ('subset', list(av) + list(bv), 0) if av else list(bv)
        if c == 6:
            a, b = self.expr(depth - 1, allow_extreme), self.expr(depth - 1, allow_extreme)
            cond = self.i(0, 1)
            self.feats.add('if-else')
            av, bv = _unwrap(a[1]), _unwrap(b[1])
            self.tmap[f'({a[0]} if {"true" if cond else "false"} else {b[0]})'] = lub([self.ty(a[0]), self.ty(b[0])])
            if av is None or bv is None:
                return f'({a[0]} if {"true" if cond else "false"} else {b[0]})', None
            return f'({a[0]} if {"true" if cond else "false"} else {b[0]})', (av if cond else bv)
        if c == 7:
            a = self.expr(depth - 1, allow_extreme)
            fn = self.pick(['min', 'max'])
            self.feats.add('min-max')
            av = _unwrap(a[1])
            self.tmap[f'{fn}({a[0]})'] = self.ty(a[0])
            if av is None:
                return f'{fn}({a[0]})', None
            try:
                # over a LIMITed subset any element can be the extreme
                vals = [] if not av else (list(av) if av is not a[1] else [min(av) if fn == 'min' else max(av)])
            except TypeError:
                vals = None
            return f'{fn}({a[0]})', vals
        if c == 8:
            a = self.expr(depth - 1, allow_extreme)
            self.feats.add('distinct')
            av = _unwrap(a[1])
            self.tmap[f'(distinct {a[0]})'] = self.ty(a[0])
            if av is None:
                return f'(distinct {a[0]})', None
            out = []
            for x in av:
                if not any(x == y for y in out):
                    out.append(x)
            return f'(distinct {a[0]})', out
        if c == 9:
            # array literal of singletons, then unpack
            els = [self.single(depth - 1, allow_extreme) for _ in range(self.i(1, 3))]
            self.feats.add('array-unpack')
            return self.reg('array_unpack([' + ', '.join(t for t, _ in els) + '])',
                            _arr_el([self.ty(t) for t, _ in els]), _cat(els))
        if c == 10:
            a = self.expr(depth - 1, allow_extreme)
            self.feats.add('subquery')
            lim = self.i(0, 2)
            av = _unwrap(a[1])
            self.tmap[f'(select {a[0]} limit {lim})'] = self.ty(a[0])
            if av is None:
                return f'(select {a[0]} limit {lim})', None
            # LIMIT without ORDER BY: any subset of that size; membership is judged on all candidates
            return f'(select {a[0]} limit {lim})', ('subset', list(av), lim)
        if self.i(0, 2) == 0:
            # sign / absolute value keep the (base) type of a small operand
            a, av = self.small(depth - 1)
            fn = self.pick(['-', 'abs'])
            self.feats.add('unary')
            if fn == '-':
                return self.reg(f'(-{a})', _base(self.ty(a)), [-x for x in av])
            return self.reg(f'math::abs(-{a})', _base(self.ty(a)), [abs(-x) for x in av])
        a = self.single(depth - 1, allow_extreme)
        self.feats.add('tuple-element')
        return self.reg(f'({a[0]}, 1).0', self.ty(a[0]), a[1])

    def small(self, depth):
        ty = self.pick(NUMT + ['small'])
        self.types.add(ty)
        t, v = lit(ty, self.i(1, 3))
        return self.reg(t, ty, [v])

    def single(self, depth, allow_extreme):
        c = self.i(0, 2)
        if c == 0 and allow_extreme:
            h = self.pick([k for k in HOLDER if k != 'SStr'])
            self.types.add(HOLDER[h][0])
            return self.reg(f'assert_single({h}.v)', HOLDER[h][0], [HOLDER[h][1]])
        return self.small(depth)

    def top(self):
        """-> (text, expected python value structure) where structure = ('set', values) |
        ('array', values) | ('tuple', [values...])"""
        c = self.i(0, 9)
        d = self.i(1, 3)
        if c <= 4:
            t, v = self.expr(d)
            self.doc_type = ('scalar', self.ty(t))
            return f'select {t}', ('set', v)
        if c == 5:
            els = [self.single(d, True) for _ in range(self.i(1, 4))]
            self.feats.add('array-literal')
            # (an array literal of a scalar subtype is typed as array<base type>)
            self.doc_type = ('array', _arr_el([self.ty(t) for t, _ in els]))
            return 'select [' + ', '.join(t for t, _ in els) + ']', ('arrayset', _cat(els))
        if c == 6:
            t, v = self.expr(d)
            self.feats.add('array_agg')
            self.doc_type = ('array', self.ty(t))
            return f'select array_agg({t})', ('arrayset', v)
        if c == 7:
            els = [self.single(d, True) for _ in range(self.i(2, 3))]
            self.feats.add('tuple')
            self.doc_type = ('tuple', [self.ty(t) for t, _ in els])
            return 'select (' + ', '.join(t for t, _ in els) + ')', ('tuple', [v for _, v in els])
        if c == 8:
            els = [self.single(d, True) for _ in range(self.i(1, 3))]
            t2, v2 = self.expr(d)
            self.feats.add('array-in-set')
            self.doc_type = ('array', lub([_arr_el([self.ty(t) for t, _ in els]), self.ty(t2)]))
            return 'select {[' + ', '.join(t for t, _ in els) + '], array_agg(' + t2 + ')}', \
                ('arrays', [_cat(els), v2])
        t, v = self.expr(d, allow_extreme=False)     # no overflow: sums of small operands only
        self.feats.add('sum')
        return f'select sum({t})', ('sum', v)


def _unwrap(v):
    while isinstance(v, tuple) and v and v[0] == 'subset':
        v = v[1]
    return v


def _cat(parts):
    out = []
    for _, v in parts:
        v = _unwrap(v)
        if v is None:
            return None
        out += list(v)
    return out


def _values_of(exp):
    """flatten an expectation into the list of scalar values that may occur"""
    kind, v = exp
    v = _unwrap(v)
    if v is None:
        return None
    if kind in ('set', 'arrayset'):
        return list(v)
    if kind == 'arrays':
        out = []
        for x in v:
            x = _unwrap(x)
            if x is None:
                return None
            out += list(x)
        return out
    if kind == 'tuple':
        return None    # handled separately
    if kind == 'sum':
        if v is not exp[1]:
            return None     # sum over a LIMITed subset: not predicted
        try:
            return [sum(v)] if v else [0]
        except TypeError:
            return None
    return None


def run_typed(case):
    S = preload()
    info = dict(status='ok')
    text = case['text']
    try:
        ir = compile_ir(text, S['nschema'])
    except S['errors'].InternalServerError as e:
        info.update(status='compiler-crash', why=str(e)[:50])
        return [], info
    except S['errors'].EdgeDBError as e:
        info.update(status='rejected', why=f'{type(e).__name__}: {str(e)[:40]}')
        return [], info
    except (AssertionError, KeyError, AttributeError, TypeError, ValueError, IndexError, RecursionError) as e:
        info.update(status='compiler-crash', why=f'{type(e).__name__}: {str(e)[:50]}')
        return [], info
    tt = type_tree(ir.stype, ir.schema)
    info['stype'] = ir.stype.get_displayname(ir.schema)
    exp = pickle.loads(bytes.fromhex(case['exp']))
    viol = []
    r = _doc_matches(case.get('doc_type'), tt)
    if r:
        viol.append(('static-type-differs-from-documented-casts',
                     f'`{text}`: {r}'))
    kind = exp[0]
    if exp[1] is None:
        info['status'] = 'ok' if viol else 'not-evaluable'
        return viol, info
    if kind == 'tuple':
        if tt[0] != 'tuple' or len(tt[1]) != len(exp[1]):
            viol.append(('tuple-structure', f'`{text}`: inferred {info["stype"]} for a {len(exp[1])}-tuple'))
        else:
            for k, (vals, et) in enumerate(zip(exp[1], tt[1])):
                for v in vals or []:
                    r = belongs(v, et)
                    if r:
                        viol.append((f'value-not-in-type:{et[1] if et[0] == "scalar" else et[0]}',
                                     f'`{text}`: inferred type {info["stype"]}, but element {k} evaluates to {v!r}: {r}'))
    else:
        vals = _values_of(exp)
        if vals is None:
            info['status'] = 'not-evaluable'
            return [], info
        et = tt
        if kind in ('arrayset', 'arrays'):
            if tt[0] != 'array':
                viol.append(('array-structure', f'`{text}`: inferred {info["stype"]} for an array expression'))
                et = None
            else:
                et = tt[1]
        if et is not None:
            for v in vals:
                r = belongs(v, et)
                if r:
                    viol.append((f'value-not-in-type:{et[1].replace("std::", "") if et[0] == "scalar" else et[0]}',
                                 f'`{text}`: inferred type {info["stype"]}, but the expression evaluates to '
                                 f'{v!r}: {r}'))
                    break
    info['n_values'] = len(_values_of(exp) or []) if kind != 'tuple' else sum(len(x or []) for x in exp[1])
    # the type reported to clients
    if case.get('check_descriptor') and not viol:
        from vp_harness.oracles import typedesc as TD
        SV = _server()
        try:
            units, _ = SV['compiler'].compile(
                user_schema=SV['us'], global_schema=SV['s_schema'].EMPTY_SCHEMA, reflection_cache=SV['refl'],
                database_config=SV['E'], system_config=SV['E'], request=env.Req(text, protocol_version=(2, 0)))
            blocks, _a = TD.decode(bytes(units[0].out_type_data))
            root = TD.tree(blocks, len(blocks) - 1)
            want = _desc_of(tt)
            if want is not None and _strip(root) != want:
                viol.append(('descriptor-differs-from-inferred-type',
                             f'`{text}`: inferred {info["stype"]} but the output descriptor says {_strip(root)!r:.300}'))
        except S['errors'].EdgeDBError:
            pass
        except TD.DecodeError as e:
            viol.append(('descriptor-undecodable', f'`{text}`: {e}'))
    return viol, info


def _desc_of(tt):
    k = tt[0]
    if k == 'scalar':
        return ('scalar', tt[1])
    if k == 'array':
        x = _desc_of(tt[1])
        return None if x is None else ('array', x)
    if k == 'tuple':
        xs = [_desc_of(x) for x in tt[1]]
        return None if any(x is None for x in xs) else ('tuple', xs)
    return None


def _strip(root):
    if root[0] == 'scalar':
        return ('scalar', root[1])
    if root[0] == 'array':
        return ('array', _strip(root[1]))
    if root[0] == 'tuple':
        return ('tuple', [_strip(x) for x in root[1]])
    return root


# ----------------------------------------------------------------------
# stream (a)

def run_toy(case):
    S = preload()
    info = dict(status='ok')
    text = case['text']
    try:
        ir = compile_ir(text, S['schema'])
    except S['errors'].InternalServerError as e:
        info.update(status='compiler-crash', why=str(e)[:50])
        return [], info
    except S['errors'].EdgeDBError as e:
        info.update(status='rejected', why=f'{type(e).__name__}: {str(e)[:40]}')
        return [], info
    except (AssertionError, KeyError, AttributeError, TypeError, ValueError, IndexError, RecursionError) as e:
        info.update(status='compiler-crash', why=f'{type(e).__name__}: {str(e)[:50]}')
        return [], info
    tt = type_tree(ir.stype, ir.schema)
    info['stype'] = ir.stype.get_displayname(ir.schema)
    toy = TE._T['toy']
    db = TE.make_db(case['instance'])
    try:
        res = TE.evaluate(text, db)
    except RecursionError:
        info.update(status='oracle-error', why='RecursionError')
        return [], info
    except Exception as e:
        info.update(status='oracle-error', why=f'{type(e).__name__}: {str(e)[:40]}')
        return [], info
    info['n_values'] = len(res)

    def objtype_of(v):
        return TE.type_of_obj(db, v) if isinstance(v, toy.Obj) else None
    viol = []
    for v in res[:20]:
        r = belongs(v, tt, objtype_of)
        if r:
            viol.append((f'value-not-in-type:{tt[1].replace("std::", "") if tt[0] == "scalar" else tt[0]}',
                         f'`{text}`: inferred type {info["stype"]}, but the reference evaluation yields '
                         f'{v!r:.120}: {r}'))
            break
    return viol, info


def run_case(case):
    return run_typed(case) if case['stream'] == 'typed' else run_toy(case)


def _strategy():
    from hypothesis import strategies as st
    S = preload()
    opts = Q.QOpts(dml=False, params=False, globals_=False, funcs=False, aliases=False, group=False, toy=True)
    qs = Q.query_strategy(S['info'], opts)
    inst = TE.instance_strategy(S['info'])

    @st.composite
    def cases(draw):
        if draw(st.integers(0, 2)) == 0:
            q = draw(qs)
            return dict(stream='toy', text=q['text'], features=q['features'], instance=draw(inst))
        g = EG(draw)
        text, exp = g.top()
        return dict(stream='typed', text=text, exp=pickle.dumps(exp).hex(), types=sorted(g.types),
                    doc_type=_jsonable(g.doc_type),
                    features=sorted(g.feats), check_descriptor=draw(st.integers(0, 3)) == 0)
    return cases()


def _jsonable(x):
    if isinstance(x, tuple):
        return [_jsonable(y) for y in x]
    if isinstance(x, list):
        return [_jsonable(y) for y in x]
    return x


def _doc_matches(doc, tt):
    """doc: ['scalar', ty] | ['array', ty] | ['tuple', [ty...]]; ty = numeric name | None | '?'.
    -> None if consistent / not comparable, else text"""
    if doc is None:
        return None
    kind, d = doc[0], doc[1]
    if kind == 'tuple':
        if tt[0] != 'tuple' or len(tt[1]) != len(d):
            return None
        for k, (x, t) in enumerate(zip(d, tt[1])):
            r = _doc_matches(['scalar', x], t)
            if r:
                return f'element {k}: {r}'
        return None
    if d == '?':
        return None
    if kind == 'array':
        if tt[0] != 'array':
            return None
        tt = tt[1]
    if tt[0] != 'scalar':
        return None
    if d is None:
        return (f'the documented implicit casts give the operand types no common type, yet the expression '
                f'is accepted with type {tt[1]}')
    if tt[1] != ('default::' + d if d in USERT else 'std::' + d):
        return f'the documented implicit casts make the common type {d}, the compiler infers {tt[1]}'
    return None


def _run(rec, case):
    viol, info = run_case(case)
    if info['status'] != 'ok':
        rec.evaluations += 1
        rec.skip(case['stream'] + ':' + info['status'] + ':' + info.get('why', '')[:40])
        return
    if case['stream'] == 'typed':
        nontrivial = len(case['types']) >= 2 or bool(set(case['features']) & {
            'set-constructor', 'union', 'coalesce', 'if-else', 'array-literal', 'union-pointer', 'array-in-set'})
        classes = ['stream:typed', 'inferred:' + info.get('stype', '?')[:30]] + \
            ['f:' + f for f in case['features']] + ['ntypes:' + str(min(len(case['types']), 4))]
        sample = {'text': case['text'][:300], 'inferred': info.get('stype')}
        key = case['text']
    else:
        nontrivial = info.get('n_values', 0) > 0 and len(case['features']) >= 2
        classes = ['stream:toy', 'inferred-kind:' + info.get('stype', '?').split('<')[0][:24]]
        sample = {'text': case['text'][:300], 'inferred': info.get('stype'), 'values': info.get('n_values')}
        key = {'text': case['text'], 'inst': case['instance']}
    rec.case(key, nontrivial=nontrivial, classes=classes, sample=sample)
    seen = set()
    for sig, detail in viol:
        if sig not in seen:
            seen.add(sig)
            rec.violation(sig, case, detail)


def shard(rec, idx, nshards, seed, tier):
    preload()
    n = 400 if tier == 'quick' else 10000
    core.run_given(_strategy(), lambda c: _run(rec, c), seed=seed * 1000 + idx, max_examples=n)


def replay(case):
    preload()
    viol, _ = run_case(case)
    return '; '.join(f'{s}: {d}' for s, d in viol[:2]) or None
