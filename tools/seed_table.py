#!/usr/bin/env python3
"""Render seeded/RESULTS.json + seeded/*/meta.json as the markdown table of DESIGN.md section 12."""
import json, pathlib
V = pathlib.Path('/verif')
res = json.load(open(V / 'seeded' / 'RESULTS.json'))
rows = []
for d in sorted((V / 'seeded').glob('C*-*'), key=lambda p: (p.name.split('-')[0], int(p.name.split('-')[1]))):
    m = json.load(open(d / 'meta.json'))
    r = res.get(d.name, {})
    summ = ' '.join(m['summary'].split())
    summ = summ[:200] + ('...' if len(summ) > 200 else '')
    rows.append(f"| {d.name} | {summ} | {r.get('caught_by', '?')} | {r.get('signature', '')} | {r.get('note', '')} |")
print('| seed | change (abridged from meta.json) | caught by | signature | note |')
print('|---|---|---|---|---|')
print('\n'.join(rows))
