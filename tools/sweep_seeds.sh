#!/bin/bash
# tools/sweep_seeds.sh [ids...]: run the quick check of every seeded change against a scratch worktree
# with the change applied (VERIF_REPO), never touching /repo or the committed evidence.
# Writes seeded/SWEEP.tsv: id, exit code, violation signatures.
cd /verif
OUT=${SWEEP_OUT:-/verif/seeded/SWEEP.tsv}
WT=${SWEEP_WT:-/tmp/wt/sweep}
ids=("$@"); [ ${#ids[@]} -eq 0 ] && ids=($(ls seeded | grep -E '^C[0-9]+-[0-9]+$'))
git -C /repo worktree remove --force $WT 2>/dev/null; git -C /repo worktree add -q --detach $WT HEAD || exit 2
: > "$OUT.tmp"
for id in "${ids[@]}"; do
  # "C11-2:C20" runs check C20 against seeded change C11-2; "C10-1::thorough" selects the tier
  spec=$id; tier=quick
  case "$spec" in *::*) tier=${spec##*::}; spec=${spec%%::*};; esac
  id=${spec%%:*}; P=${id%%-*}
  case "$spec" in *:*) P=${spec##*:};; esac
  git -C $WT reset -q --hard; git -C $WT checkout -q --detach "$(git -C /repo rev-parse HEAD)"
  if ! (git -C $WT apply /verif/seeded/$id/patch.diff 2>/dev/null || git -C $WT apply --3way /verif/seeded/$id/patch.diff 2>/dev/null); then
    printf "%s\tpatch-does-not-apply\t\n" "$id" >> "$OUT.tmp"; continue
  fi
  EV=/tmp/sweep-ev-$$; RP=/tmp/sweep-rp-$$; mkdir -p $EV $RP
  log=/tmp/sweep-$id-$P-$tier.log
  VERIF_REPO=$WT VERIF_EVIDENCE_DIR=$EV VERIF_REPLAYS_DIR=$RP timeout 2400 ./check $P --tier $tier > $log 2>&1
  rc=$?
  sigs=$(grep "signature:" $log | sed 's/.*signature: //' | sort -u | head -4 | tr '\n' ';')
  printf "%s\t%s\t%s\t%s\t%s\n" "$id" "$P" "$tier" "$rc" "$sigs" >> "$OUT.tmp"
  echo "$id check=$P tier=$tier rc=$rc $sigs"
done
mv "$OUT.tmp" "$OUT"
git -C /repo worktree remove --force $WT
rm -rf /tmp/sweep-ev-$$ /tmp/sweep-rp-$$ 2>/dev/null
