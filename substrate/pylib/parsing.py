"""Stand-in for the third-party ``parsing`` LR(1) generator (prototype).

Only what edb.common.parsing needs: Precedence / Token / Nonterm marker
classes, and Spec(module) producing pure-LR action/goto tables with the
precedence/associativity conflict resolution rules of the original module.
Construction: LR(1) item sets with Pager weak-compatibility merging.
"""
from __future__ import annotations

import re
import sys
import time
import types


class Precedence:
    pass


class Symbol:
    def __init__(self, *args, **kwargs):
        pass


class Nonterm(Symbol):
    pass


class Token(Symbol):
    pass


class SpecError(Exception):
    pass


class PrecSpec:
    def __init__(self, name, assoc, rels):
        self.name = name
        self.assoc = assoc
        self.rels = rels  # list of (op, name)
        self.equiv = {self}
        self.dominators = set()  # precs with HIGHER precedence than self

    def __repr__(self):
        return f'<prec {self.name} {self.assoc}>'


class SymSpec:
    def __init__(self, name, prec):
        self.name = name
        self.prec = prec

    def __str__(self):
        return self.name

    __repr__ = __str__


class TokenSpec(SymSpec):
    pass


class NontermSpec(SymSpec):
    def __init__(self, name, prec, cls):
        super().__init__(name, prec)
        self.cls = cls
        self.productions = []


class Production:
    def __init__(self, method, qualified, prec, lhs, rhs):
        self.method = method
        self.qualified = qualified
        self.prec = prec
        self.lhs = lhs
        self.rhs = rhs

    def __repr__(self):
        return f'{self.lhs} ::= {" ".join(map(str, self.rhs))} [{self.prec.name}]'


class ShiftAction:
    __slots__ = ('nextState',)

    def __init__(self, nextState):
        self.nextState = nextState


class ReduceAction:
    __slots__ = ('production',)

    def __init__(self, production):
        self.production = production


_DIR_SPLIT = re.compile(r'(?:\s|\\)+')


def _dirtoks(doc):
    if not isinstance(doc, str):
        return []
    return [t for t in _DIR_SPLIT.split(doc.strip()) if t]


class Spec:
    def __init__(self, modules, pickleFile=None, pickleMode="rw",
                 skinny=True, logFile=None, graphFile=None, verbose=False):
        if isinstance(modules, types.ModuleType):
            modules = [modules]
        self._verbose = verbose
        self._precs = {}
        self._tokens = {}
        self._nonterms = {}
        self._start = None
        self._productions = []
        self.conflicts = []
        t0 = time.time()
        self._introspect(modules)
        self._resolve_precs()
        self._build()
        self.build_time = time.time() - t0

    # -- public API used by edb.common.parsing ---------------------------
    @property
    def pureLR(self):
        return not self.conflicts

    def actions(self):
        return self._action

    def goto(self):
        return self._goto

    def start_sym(self):
        return self._start

    # -- introspection ---------------------------------------------------
    def _introspect(self, modules):
        none = PrecSpec('none', 'fail', [])
        split = PrecSpec('split', 'split', [])
        self._precs = {'none': none, 'split': split}
        self._eps = TokenSpec('<e>', none)
        self._eoi = TokenSpec('<$>', none)
        self._tokens = {'<e>': self._eps, '<$>': self._eoi}

        classes = []
        seen = set()
        for mod in modules:
            for k, v in mod.__dict__.items():
                if isinstance(v, type) and id(v) not in seen:
                    seen.add(id(v))
                    classes.append(v)

        tok_decl = []
        nt_decl = []
        for v in classes:
            toks = _dirtoks(v.__dict__.get('__doc__'))
            if not toks or not toks[0].startswith('%'):
                continue
            d = toks[0]
            if issubclass(v, Precedence):
                if d not in ('%fail', '%nonassoc', '%left', '%right',
                             '%split'):
                    raise SpecError(f'bad precedence directive {toks}')
                name = v.__name__
                rels = []
                for t in toks[1:]:
                    if t[0] in '<>=':
                        rels.append((t[0], t[1:]))
                    else:
                        name = t
                if name in self._precs:
                    raise SpecError(f'duplicate precedence {name}')
                self._precs[name] = PrecSpec(name, d[1:], rels)
            elif issubclass(v, Token):
                if d != '%token':
                    raise SpecError(f'bad token directive {toks}')
                tok_decl.append((v, toks[1:]))
            elif issubclass(v, Nonterm):
                if d not in ('%start', '%nonterm'):
                    raise SpecError(f'bad nonterm directive {toks}')
                nt_decl.append((v, d, toks[1:]))

        def split_prec(rest, default_name):
            name = default_name
            prec = 'none'
            for t in rest:
                if t.startswith('[') and t.endswith(']'):
                    prec = t[1:-1]
                else:
                    name = t
            if prec not in self._precs:
                raise SpecError(f'unknown precedence {prec}')
            return name, self._precs[prec]

        for v, rest in tok_decl:
            name, prec = split_prec(rest, v.__name__)
            if name in self._tokens:
                raise SpecError(f'duplicate token {name}')
            self._tokens[name] = TokenSpec(name, prec)

        for v, d, rest in nt_decl:
            name, prec = split_prec(rest, v.__name__)
            if name in self._nonterms or name in self._tokens:
                raise SpecError(f'duplicate symbol {name}')
            nt = NontermSpec(name, prec, v)
            self._nonterms[name] = nt
            if d == '%start':
                if self._start is not None:
                    raise SpecError('multiple %start')
                self._start = nt
        if self._start is None:
            raise SpecError('no %start')

        for nt in self._nonterms.values():
            v = nt.cls
            for k, m in v.__dict__.items():
                if not isinstance(m, types.FunctionType):
                    continue
                toks = _dirtoks(m.__doc__)
                if not toks or toks[0] != '%reduce':
                    continue
                rest = toks[1:]
                prec = None
                if rest and rest[-1].startswith('[') and rest[-1].endswith(']'):
                    pn = rest[-1][1:-1]
                    if pn not in self._precs:
                        raise SpecError(f'unknown precedence {pn} in {v}.{k}')
                    prec = self._precs[pn]
                    rest = rest[:-1]
                rhs = []
                for t in rest:
                    if t == '<e>':
                        continue
                    if t in self._tokens:
                        rhs.append(self._tokens[t])
                    elif t in self._nonterms:
                        rhs.append(self._nonterms[t])
                    else:
                        raise SpecError(
                            f'unknown symbol {t!r} in {v.__name__}.{k}')
                if prec is None:
                    prec = nt.prec
                    import os
                    mode = os.environ.get('PREC_DEFAULT', 'last')
                    terms = [x for x in rhs if isinstance(x, TokenSpec)]
                    if mode == 'last' and terms:
                        prec = terms[-1].prec
                    elif mode == 'first' and terms:
                        prec = terms[0].prec
                    elif mode == 'lastprec':
                        for x in reversed(terms):
                            if x.prec.name != 'none':
                                prec = x.prec; break
                    elif mode == 'single':
                        if len(terms) == 1:
                            prec = terms[0].prec
                    elif mode == 'firstprec':
                        for x in terms:
                            if x.prec.name != 'none':
                                prec = x.prec; break
                prod = Production(
                    m, f'{v.__module__}.{v.__name__}.{k}', prec, nt, rhs)
                nt.productions.append(prod)
                self._productions.append(prod)

    def _resolve_precs(self):
        precs = self._precs
        # equivalence classes
        for p in precs.values():
            for op, other in p.rels:
                if other not in precs:
                    raise SpecError(f'unknown precedence {other}')
                if op == '=':
                    o = precs[other]
                    merged = p.equiv | o.equiv
                    for q in merged:
                        q.equiv = merged
        # direct dominators
        for p in precs.values():
            for op, other in p.rels:
                o = precs[other]
                if op == '<':
                    p.dominators.add(o)
                elif op == '>':
                    o.dominators.add(p)
        # share within equivalence class + transitive closure
        changed = True
        while changed:
            changed = False
            for p in precs.values():
                new = set(p.dominators)
                for q in p.equiv:
                    new |= q.dominators
                for d in list(new):
                    new |= d.dominators
                    for q in d.equiv:
                        new.add(q)
                if new != p.dominators:
                    p.dominators = new
                    changed = True
        for p in precs.values():
            if p.dominators & p.equiv:
                raise SpecError(f'precedence cycle at {p.name}')

    # -- LR(1) construction ------------------------------------------------
    def _build(self):
        toks = list(self._tokens.values())
        nts = list(self._nonterms.values())
        T = len(toks)
        tid = {t: i for i, t in enumerate(toks)}
        nid = {n: T + i for i, n in enumerate(nts)}
        syms = toks + nts

        def sid(s):
            return tid[s] if isinstance(s, TokenSpec) else nid[s]

        # augmented production 0: <S> ::= S <$>
        aug_lhs = NontermSpec('<S>', self._precs['none'], None)
        aug = Production(None, 'parsing.<S>.reduce', self._precs['none'], aug_lhs,
                         [self._start, self._eoi])
        prods = [aug] + self._productions
        P = len(prods)
        rhs = [tuple(sid(s) for s in p.rhs) for p in prods]
        lhs = [-1] + [nid[p.lhs] for p in prods[1:]]
        prods_of = {}
        for pi in range(1, P):
            prods_of.setdefault(lhs[pi], []).append(pi)

        # nullable / FIRST (bitmasks over terminals)
        nullable = set()
        changed = True
        while changed:
            changed = False
            for pi in range(1, P):
                if lhs[pi] in nullable:
                    continue
                if all(s in nullable for s in rhs[pi]):
                    nullable.add(lhs[pi])
                    changed = True
        first = [0] * (T + len(nts))
        for i in range(T):
            first[i] = 1 << i
        changed = True
        while changed:
            changed = False
            for pi in range(1, P):
                l = lhs[pi]
                f = first[l]
                for s in rhs[pi]:
                    f |= first[s]
                    if s not in nullable:
                        break
                if f != first[l]:
                    first[l] = f
                    changed = True

        # suffix FIRST / nullable for each item position
        sfx_first = []
        sfx_null = []
        for pi in range(P):
            r = rhs[pi]
            n = len(r)
            ff = [0] * (n + 1)
            nn = [True] * (n + 1)
            for d in range(n - 1, -1, -1):
                s = r[d]
                if s in nullable:
                    ff[d] = first[s] | ff[d + 1]
                    nn[d] = nn[d + 1]
                else:
                    ff[d] = first[s]
                    nn[d] = False
            sfx_first.append(ff)
            sfx_null.append(nn)

        # for closure: nonterminal B -> [(C, first_after, nullable_after)]
        nt_edges = {}
        for B, pis in prods_of.items():
            edges = []
            for pi in pis:
                r = rhs[pi]
                if r and r[0] >= T:
                    edges.append((r[0], sfx_first[pi][1], sfx_null[pi][1]))
            nt_edges[B] = edges

        states_kernel = []   # list of (items tuple, la list)
        by_core = {}
        trans = []           # per state: dict sym -> state
        work = []
        inwork = set()

        def weak_compat(a, b):
            n = len(a)
            if n == 1:
                return True
            for i in range(n):
                ai = a[i]
                bi = b[i]
                for j in range(i + 1, n):
                    aj = a[j]
                    bj = b[j]
                    if ((ai & bj) or (aj & bi)) and not (ai & aj) \
                            and not (bi & bj):
                        return False
            return True

        def add_state(items, las):
            lst = by_core.get(items)
            if lst is None:
                lst = by_core[items] = []
            for s in lst:
                cur = states_kernel[s][1]
                if weak_compat(cur, las):
                    grew = False
                    for i in range(len(cur)):
                        m = cur[i] | las[i]
                        if m != cur[i]:
                            cur[i] = m
                            grew = True
                    if grew and s not in inwork:
                        inwork.add(s)
                        work.append(s)
                    return s
            s = len(states_kernel)
            states_kernel.append((items, list(las)))
            trans.append({})
            lst.append(s)
            inwork.add(s)
            work.append(s)
            return s

        def closure_las(items, las):
            LA = {}
            stack = []
            for (pi, d), la in zip(items, las):
                r = rhs[pi]
                if d < len(r) and r[d] >= T:
                    B = r[d]
                    c = sfx_first[pi][d + 1]
                    if sfx_null[pi][d + 1]:
                        c |= la
                    old = LA.get(B, 0)
                    if c | old != old:
                        LA[B] = c | old
                        stack.append(B)
            while stack:
                B = stack.pop()
                m = LA[B]
                for C, f, nl in nt_edges.get(B, ()):
                    c = f | m if nl else f
                    old = LA.get(C, 0)
                    if c | old != old:
                        LA[C] = c | old
                        stack.append(C)
            return LA

        eoi_bit = 1 << tid[self._eoi]
        add_state(((0, 0),), [eoi_bit])

        closures = {}
        while work:
            s = work.pop()
            inwork.discard(s)
            items, las = states_kernel[s]
            LA = closure_las(items, las)
            closures[s] = LA
            nxt = {}
            for (pi, d), la in zip(items, las):
                r = rhs[pi]
                if d < len(r):
                    nxt.setdefault(r[d], {})[(pi, d + 1)] = la
            for B, m in LA.items():
                for pi in prods_of.get(B, ()):
                    r = rhs[pi]
                    if r:
                        dct = nxt.setdefault(r[0], {})
                        key = (pi, 1)
                        dct[key] = dct.get(key, 0) | m
            tr = trans[s]
            for X, dct in nxt.items():
                its = tuple(sorted(dct))
                ls = [dct[i] for i in its]
                tr[X] = add_state(its, ls)

        self.n_states = len(states_kernel)

        # tables
        action = []
        goto = []
        conflicts = self.conflicts
        for s in range(len(states_kernel)):
            items, las = states_kernel[s]
            LA = closures[s]
            acts = {}   # tok index -> list of actions

            def add(tokidx, act, s=s, acts=acts):
                sym = toks[tokidx]
                cur = acts.get(tokidx)
                if cur is None:
                    acts[tokidx] = [act]
                else:
                    acts[tokidx] = self._resolve(sym, cur, act)

            for X, tgt in trans[s].items():
                if X < T:
                    add(X, ShiftAction(tgt))
            red = []
            for (pi, d), la in zip(items, las):
                if d == len(rhs[pi]):
                    red.append((pi, la))
            for B, m in LA.items():
                for pi in prods_of.get(B, ()):
                    if not rhs[pi]:
                        red.append((pi, m))
            for pi, la in red:
                ra = ReduceAction(prods[pi])
                i = 0
                while la:
                    if la & 1:
                        add(i, ra)
                    la >>= 1
                    i += 1
            out = {}
            for tokidx, lst in acts.items():
                if not lst:
                    continue   # nonassoc error entry
                if len(lst) > 1:
                    conflicts.append((s, toks[tokidx].name, lst))
                out[toks[tokidx]] = lst
            action.append(out)
            goto.append({syms[X]: tgt for X, tgt in trans[s].items()
                         if X >= T})
        self._action = action
        self._goto = goto

    def _resolve(self, sym, old_acts, new_act):
        def prec_of(a):
            return sym.prec if isinstance(a, ShiftAction) \
                else a.production.prec

        new_prec = prec_of(new_act)
        keep_old = []
        keep_new = True
        for old in old_acts:
            old_prec = prec_of(old)
            if old_prec in new_prec.dominators:
                keep_old.append(old)       # old has higher precedence
                keep_new = False
            elif new_prec in old_prec.dominators:
                pass                       # new has higher precedence
            elif old_prec in new_prec.equiv:
                assoc = old_prec.assoc
                o_shift = isinstance(old, ShiftAction)
                n_shift = isinstance(new_act, ShiftAction)
                if o_shift == n_shift:
                    keep_old.append(old)   # R/R (or S/S): unresolvable
                elif assoc == 'left':
                    if o_shift:
                        pass
                    else:
                        keep_old.append(old)
                        keep_new = False
                elif assoc == 'right':
                    if o_shift:
                        keep_old.append(old)
                        keep_new = False
                elif assoc == 'nonassoc':
                    keep_new = False
                else:  # fail / split
                    keep_old.append(old)
            else:
                keep_old.append(old)
        if keep_new:
            keep_old.append(new_act)
        return keep_old
