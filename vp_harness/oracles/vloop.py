"""Harness-owned asyncio event loop with a virtual clock.

The harness owns the schedule: callbacks run FIFO only when `run_ready()` is
called, timers fire only when `advance()` moves the clock.  No wall clock.
"""
from __future__ import annotations

import asyncio
import heapq
import itertools


class VClock:
    """Stand-in for the `time` module inside the code under test."""

    def __init__(self) -> None:
        self.now = 1000.0

    def monotonic(self) -> float:
        return self.now

    def time(self) -> float:
        return self.now

    def perf_counter(self) -> float:
        return self.now

    def __getattr__(self, n):
        import time
        return getattr(time, n)


class VLoop(asyncio.AbstractEventLoop):
    def __init__(self, clock: VClock) -> None:
        self.clock = clock
        self._ready: list[asyncio.Handle] = []
        self._timers: list = []
        self._seq = itertools.count()
        self.exc_contexts: list[dict] = []
        self.tasks: list[asyncio.Task] = []
        self.callbacks_run = 0

    # --- what asyncio needs ------------------------------------------
    def time(self):
        return self.clock.now

    def get_debug(self):
        return False

    def call_soon(self, cb, *args, context=None):
        h = asyncio.Handle(cb, args, self, context)
        self._ready.append(h)
        return h

    call_soon_threadsafe = call_soon

    def call_later(self, delay, cb, *args, context=None):
        return self.call_at(self.time() + delay, cb, *args, context=context)

    def call_at(self, when, cb, *args, context=None):
        h = asyncio.TimerHandle(when, cb, args, self, context)
        heapq.heappush(self._timers, (when, next(self._seq), h))
        return h

    def _timer_handle_cancelled(self, h):
        pass

    def create_future(self):
        return asyncio.Future(loop=self)

    def create_task(self, coro, *, name=None, context=None):
        t = asyncio.Task(coro, loop=self, name=name)
        self.tasks.append(t)
        return t

    def call_exception_handler(self, ctx):
        self.exc_contexts.append(ctx)

    def default_exception_handler(self, ctx):
        self.exc_contexts.append(ctx)

    def is_running(self):
        return True

    def is_closed(self):
        return False

    # --- what the harness drives -------------------------------------
    def run_ready(self, limit: int = 100000) -> int:
        n = 0
        while self._ready:
            h = self._ready.pop(0)
            if not h._cancelled:
                h._run()
                n += 1
                self.callbacks_run += 1
                if n > limit:
                    raise RuntimeError('ready queue does not drain (livelock)')
        return n

    def pending_timers(self) -> int:
        return sum(1 for _, _, h in self._timers if not h._cancelled)

    def next_timer(self):
        while self._timers and self._timers[0][2]._cancelled:
            heapq.heappop(self._timers)
        return self._timers[0][0] if self._timers else None

    def advance(self, dt: float) -> None:
        """Move the clock forward, firing timers in timestamp order (each
        batch of callbacks is drained before the next timer fires)."""
        target = self.clock.now + dt
        while True:
            nt = self.next_timer()
            if nt is None or nt > target:
                break
            self.clock.now = max(self.clock.now, nt)
            _, _, h = heapq.heappop(self._timers)
            if not h._cancelled:
                self._ready.append(h)
            self.run_ready()
        self.clock.now = target
        self.run_ready()
