#!/bin/bash
# tools/with_patch.sh <patch.diff> <command...>: apply a patch to /repo, run the command in /verif, always revert.
set -u
P="$(realpath "$1")"; shift
cd /repo || exit 2
if [ -n "$(git status --porcelain --untracked-files=no)" ]; then echo "/repo is dirty; refusing" >&2; exit 2; fi
HEAD0=$(git rev-parse HEAD)
restore() { git -C /repo reset -q --hard "$HEAD0"; }
trap restore EXIT
git apply "$P" 2>/dev/null || git apply --3way "$P" || { echo "patch does not apply" >&2; exit 2; }
cd /verif
"$@"
rc=$?
echo "exit=$rc"
exit $rc
