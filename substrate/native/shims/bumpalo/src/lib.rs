//! Minimal stand-in for `bumpalo::Bump`: every allocation is an individually
//! boxed value kept alive until the arena is dropped (values are not dropped,
//! matching bumpalo's semantics of never running destructors).
use std::cell::UnsafeCell;
pub struct Bump { chunks: UnsafeCell<Vec<(*mut u8, std::alloc::Layout)>> }
impl Bump {
    pub fn new() -> Self { Bump { chunks: UnsafeCell::new(Vec::new()) } }
    fn raw(&self, layout: std::alloc::Layout) -> *mut u8 {
        if layout.size() == 0 { return layout.align() as *mut u8; }
        let p = unsafe { std::alloc::alloc(layout) };
        assert!(!p.is_null());
        unsafe { (&mut *self.chunks.get()).push((p, layout)); }
        p
    }
    #[allow(clippy::mut_from_ref)]
    pub fn alloc<T>(&self, v: T) -> &mut T {
        let p = self.raw(std::alloc::Layout::new::<T>()) as *mut T;
        unsafe { p.write(v); &mut *p }
    }
    #[allow(clippy::mut_from_ref)]
    pub fn alloc_slice_fill_with<T, F: FnMut(usize) -> T>(&self, len: usize, mut f: F) -> &mut [T] {
        let p = self.raw(std::alloc::Layout::array::<T>(len).unwrap()) as *mut T;
        for i in 0..len { unsafe { p.add(i).write(f(i)); } }
        unsafe { std::slice::from_raw_parts_mut(p, len) }
    }
    #[allow(clippy::mut_from_ref)]
    pub fn alloc_slice_clone<T: Clone>(&self, src: &[T]) -> &mut [T] {
        self.alloc_slice_fill_with(src.len(), |i| src[i].clone())
    }
}
impl Drop for Bump {
    fn drop(&mut self) {
        for (p, l) in unsafe { (&mut *self.chunks.get()).drain(..) } { unsafe { std::alloc::dealloc(p, l); } }
    }
}
