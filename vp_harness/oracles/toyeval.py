"""Reference evaluation of EdgeQL through edb/tools/toy_eval_model.py (the repository's
transcription of the documented set semantics), with two harness-side adaptations of
the *reference model* (never of the compiler under test):

* the toy model matches type names literally; here `eval_objref` and `eval_intersect`
  honour the inheritance of the real schema (a type extent includes its descendants);
* `schema_computables` is derived from the real schema (every computed pointer of every
  concrete type, expression text taken from the schema), because the toy model answers
  `[]` silently for a pointer it does not know.

Also: generation of database instances that conform to the schema of gen/query.py
(required pointers filled, single pointers <= 1 value, exclusive constraints respected by
construction, link targets of the right type).
"""
from __future__ import annotations

import uuid

_T: dict = {}


def setup(info, schema):
    """info: gen.query.SchemaInfo; schema: the real schema (for computed expression text)"""
    if _T:
        return _T
    from edb.tools import toy_eval_model as toy
    from edb.schema import objtypes as s_objtypes
    comp = {}
    for tname, t in info.types.items():
        obj = schema.get(f'default::{tname}', type=s_objtypes.ObjectType)
        d = {}
        for pn, p in obj.get_pointers(schema).items(schema):
            e = p.get_expr(schema)
            if e is not None and str(pn) not in ('id', '__type__'):
                # the schema stores normalised text (std::count, default::User); the toy model knows
                # neither modules nor qualified function names
                d[str(pn)] = e.text.replace('std::', '').replace('default::', '')
        if d:
            comp[tname] = d
    desc = {t: set([t] + info.types[t]['descendants']) for t in info.types}

    def eval_objref(name, ctx):
        if name == 'FreeObject':
            return [toy.mk_free_object()]
        names = desc.get(name, {name})
        return [toy.Obj(o['id']) for o in ctx.db.data.values() if o['__type__'] in names]

    def eval_intersect(base, ptr, ctx):
        typ = ctx.db.data[base.id]['__type__']
        return [base] if typ in desc.get(ptr.typ, {ptr.typ}) else []

    # a computed link is a proper set (the compiler rejects the definition otherwise); the
    # toy model concatenates without deduplicating
    orig_eval_computed = toy.eval_computed

    def eval_computed(obj, name, *a, **k):
        res = orig_eval_computed(obj, name, *a, **k)
        if res and all(isinstance(x, toy.Obj) for x in res):
            res = toy.dedup(res)
        return res

    toy.eval_objref = eval_objref
    toy.eval_intersect = eval_intersect
    toy.eval_computed = eval_computed
    _T.update(toy=toy, comp=comp, desc=desc)
    return _T


def bsid(n):
    return uuid.UUID(f'ffffffff-ffff-ffff-ffff-{n:012x}')


# ----------------------------------------------------------------------
# database instances

def instance_strategy(info):
    """-> strategy of JSON-able instances: {'objs': [{'n': int, 'type': T, 'data': {...}}]}
    links are {'to': n, 'props': {...}}"""
    from hypothesis import strategies as st

    @st.composite
    def inst(draw):
        def i(lo, hi):
            return draw(st.integers(lo, hi))
        objs = []
        n = 0
        by_type: dict = {}
        empty_mode = i(0, 9) == 0        # mostly-empty database
        for t in info.concrete:
            k = 0 if (empty_mode and i(0, 2) > 0) else i(0, 3)
            for _ in range(k):
                n += 1
                objs.append(dict(n=n, type=t, data={}))
                by_type.setdefault(t, []).append(n)

        def extent(t):
            out = []
            for d in [t] + info.types[t]['descendants']:
                out += by_type.get(d, [])
            return out
        used_excl: dict = {}
        for o in objs:
            t = o['type']
            for p in info.ptrs(t).values():
                if p.computed or (isinstance(p.target, tuple) and p.target[0] == 'other'):
                    continue
                if p.is_link:
                    cands = extent(p.target[1])
                    if p.exclusive:
                        cands = [c for c in cands if c not in used_excl.setdefault(p.name, set())]
                    if p.multi:
                        k = i(0, min(3, len(cands)))
                        chosen = []
                        pool = list(cands)
                        for _ in range(k):
                            c = pool.pop(i(0, len(pool) - 1))
                            chosen.append(c)
                    else:
                        chosen = [cands[i(0, len(cands) - 1)]] if cands and (p.required or i(0, 2) > 0) else []
                    if p.exclusive:
                        used_excl.setdefault(p.name, set()).update(chosen)
                    vals = []
                    for c in chosen:
                        props = {}
                        for lp, k2 in p.linkprops:
                            if not isinstance(k2, tuple) and i(0, 2) > 0:
                                props[lp] = i(0, 4) if k2 == 'int' else ('t' + str(i(0, 2)) if k2 == 'str' else bool(i(0, 1)))
                        vals.append(dict(to=c, props=props))
                    o['data'][p.name] = vals if p.multi else (vals[0] if vals else None)
                else:
                    def val():
                        if p.target == 'int':
                            return i(0, 4)
                        if p.target == 'bool':
                            return bool(i(0, 1))
                        return ['a', 'b', 'u1', 'c1', 'x', 'n1'][i(0, 5)]
                    if p.name == 'name':
                        o['data']['name'] = f'n{o["n"]}' if i(0, 3) else ['a', 'b', 'u1', 'c1', 'x'][o['n'] % 5] + str(o['n'])
                    elif p.exclusive:
                        if p.required or i(0, 1) > 0:
                            o['data'][p.name] = f'{p.name}{o["n"]}' if i(0, 2) else ['a', 'b'][o['n'] % 2] + str(o['n'])
                        else:
                            o['data'][p.name] = None
                    elif p.multi:
                        vs = sorted({val() for _ in range(i(0, 3))}, key=repr)
                        o['data'][p.name] = vs
                    else:
                        o['data'][p.name] = val() if (p.required or i(0, 3) > 0) else None
        return dict(objs=objs)
    return inst()


def make_db(instance):
    T = _T
    toy = T['toy']
    rows = []
    for o in instance['objs']:
        row = {'id': bsid(o['n']), '__type__': o['type']}
        for k, v in o['data'].items():
            if isinstance(v, dict):
                row[k] = toy.bslink(v['to'], **v['props'])
            elif isinstance(v, list) and v and isinstance(v[0], dict):
                row[k] = [toy.bslink(x['to'], **x['props']) for x in v]
            elif isinstance(v, list):
                row[k] = list(v)
            else:
                row[k] = v
        rows.append(row)
    return toy.mk_db(rows, T['comp'])


def evaluate(text, db):
    """-> list of toy values (objects keep their ids)"""
    toy = _T['toy']
    q = toy.parse(text)
    return toy.toplevel_query(q, db)


def type_of_obj(db, obj):
    return db.data[obj.id]['__type__'] if obj.id in db.data else 'FreeObject'


def canon(v, db=None):
    """hashable canonical form for duplicate detection (objects by id)"""
    toy = _T['toy']
    if isinstance(v, toy.Obj):
        return ('obj', str(v.id))
    if isinstance(v, tuple):
        return ('tuple',) + tuple(canon(x) for x in v)
    if isinstance(v, list):
        return ('array',) + tuple(canon(x) for x in v)
    if isinstance(v, dict):
        return ('nt',) + tuple((k, canon(x)) for k, x in v.items())
    if isinstance(v, bool):
        return ('bool', v)
    return (type(v).__name__, v)
