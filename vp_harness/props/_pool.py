"""Shared simulation for C15 / C16: the connection pool under a harness-owned
event loop, virtual clock and connect/disconnect callbacks that park futures.

A case is {'cap': int, 'ops': [[opname, args...], ...]} — plain JSON, replayable
without Hypothesis.  Indexes are taken modulo the size of the list they index
(held connections, pending connects, ...), so every op is applicable or a
counted no-op.
"""
from __future__ import annotations

import asyncio

from vp_harness import env  # noqa: F401  (stubs the Rust pool module)
from vp_harness.oracles.vloop import VClock, VLoop

DBS = ['db0', 'db1', 'db2', 'db3', 'db4', 'db5', 'db6']
ADVANCES = [0.004, 0.02, 0.011, 0.25, 1.3, 125.0]

_clock = VClock()


def _pool_mod():
    import logging
    from edb.server.connpool import pool as P
    P.time = _clock
    logging.getLogger('edb.server').setLevel(logging.CRITICAL + 1)
    return P


class InjectedConnectError(Exception):
    def __init__(self, msg, fields=None):
        super().__init__(msg)
        if fields:
            self.fields = fields


class InjectedDisconnectError(Exception):
    pass


class Conn:
    __slots__ = ('id', 'db', 'state', 'broken')

    def __init__(self, id, db):
        self.id = id
        self.db = db
        self.state = 'open'      # open -> closing -> closed
        self.broken = False

    def __repr__(self):
        return f'<conn{self.id}:{self.db}:{self.state}>'


class Sim:
    def __init__(self, cap: int, gc_interval: float = 120.0):
        P = _pool_mod()
        _clock.now = 1000.0
        self.loop = VLoop(_clock)
        asyncio._set_running_loop(self.loop)
        self.cap = cap
        self.conns: list[Conn] = []
        self.pending_connects: list = []     # (db, fut)
        self.pending_disconnects: list = []  # (conn, fut)
        self.acquires: list = []             # dict(db, task, conn, released)
        self.violations: list = []           # (sig, detail)
        self.anomalies: dict = {}
        self.events: list[str] = []
        self.nconn = 0
        self.opening = 0
        self.prune_tasks: list = []
        self.stats = dict(waited=0, transfers=0, connect_failures=0,
                          steals=0, aborted=0, discards=0, prunes=0)
        self.pool = P.Pool(connect=self._connect, disconnect=self._disconnect,
                           max_capacity=cap,
                           min_idle_time_before_gc=gc_interval)

    def close(self):
        # no task or handle outlives a case
        for a in self.acquires:
            if not a['task'].done():
                a['task'].cancel()
        for t in self.loop.tasks:
            if not t.done():
                t.cancel()
        try:
            self.loop.run_ready()
        except Exception:
            pass
        for t in self.loop.tasks:
            if t.done() and not t.cancelled():
                t.exception()
        asyncio._set_running_loop(None)

    # -- backend callbacks (the true state lives here) --------------------
    async def _connect(self, db):
        fut = self.loop.create_future()
        self.pending_connects.append((db, fut))
        self.opening += 1
        try:
            return await fut
        finally:
            self.opening -= 1

    async def _disconnect(self, conn):
        if not isinstance(conn, Conn) or conn.state != 'open':
            self.bad('disconnect-of-non-open',
                     f'disconnect callback called for {conn!r}')
        if isinstance(conn, Conn):
            conn.state = 'closing'
        fut = self.loop.create_future()
        self.pending_disconnects.append((conn, fut))
        try:
            await fut
        finally:
            if isinstance(conn, Conn):
                conn.state = 'closed'

    def bad(self, sig, detail):
        self.violations.append((sig, detail))

    def anomaly(self, what):
        self.anomalies[what] = self.anomalies.get(what, 0) + 1

    # -- operations ---------------------------------------------------------
    def op(self, op) -> bool:
        """apply one op; returns False if it was a no-op"""
        name = op[0]
        pool = self.pool
        if name == 'acquire':
            db = DBS[op[1] % len(DBS)]
            blk = pool._blocks.get(db)
            parked = (pool.current_capacity >= self.cap
                      and (blk is None or blk.count_conns() == 0))
            t = self.loop.create_task(pool.acquire(db))
            self.acquires.append(dict(db=db, task=t, conn=None, released=False,
                                      seen=False, parked=parked))
            return True
        if name in ('release', 'discard'):
            held = [a for a in self.acquires
                    if a['conn'] is not None and not a['released']]
            if not held:
                return False
            a = held[op[1] % len(held)]
            a['released'] = True
            if name == 'discard':
                a['conn'].broken = True
                self.stats['discards'] += 1
            try:
                pool.release(a['db'], a['conn'], discard=(name == 'discard'))
            except Exception as e:
                self.bad('release-raised',
                         f'release of a lent connection raised '
                         f'{type(e).__name__}: {e}')
            return True
        if name in ('connect_ok', 'connect_fail'):
            if not self.pending_connects:
                return False
            db, fut = self.pending_connects.pop(op[1] % len(self.pending_connects))
            if name == 'connect_ok':
                c = Conn(self.nconn, db)
                self.nconn += 1
                self.conns.append(c)
                fut.set_result(c)
            else:
                self.stats['connect_failures'] += 1
                kind = op[2] if len(op) > 2 else 'err'
                if kind == '3D000':
                    fut.set_exception(InjectedConnectError(
                        'database does not exist', fields={'C': '3D000'}))
                else:
                    fut.set_exception(InjectedConnectError('connect failed'))
            return True
        if name in ('disconnect_ok', 'disconnect_fail'):
            if not self.pending_disconnects:
                return False
            conn, fut = self.pending_disconnects.pop(
                op[1] % len(self.pending_disconnects))
            if name == 'disconnect_ok':
                fut.set_result(None)
            else:
                fut.set_exception(InjectedDisconnectError('disconnect failed'))
            return True
        if name == 'advance':
            self.loop.advance(ADVANCES[op[1] % len(ADVANCES)])
            return True
        if name == 'prune':
            db = DBS[op[1] % len(DBS)]
            self.stats['prunes'] += 1
            t = self.loop.create_task(pool.prune_inactive_connections(db))
            self.prune_tasks.append(t)
            return True
        if name == 'prune_all':
            if any(a['conn'] is not None and not a['released']
                   for a in self.acquires):
                return False   # HA failover revokes lent connections by design
            if any(not a['task'].done() for a in self.acquires):
                return False
            self.stats['prunes'] += 1
            t = self.loop.create_task(pool.prune_all_connections())
            self.prune_tasks.append(t)
            return True
        raise ValueError(op)

    def settle(self):
        """drain the ready queue and collect completed acquires"""
        self.loop.run_ready()
        for a in self.acquires:
            t = a['task']
            if not t.done():
                a['waited'] = True
            if a['seen'] or not t.done():
                continue
            a['seen'] = True
            if t.cancelled():
                a['released'] = True
                continue
            e = t.exception()
            if e is not None:
                a['released'] = True
                if isinstance(e, InjectedConnectError):
                    self.stats['aborted'] += 1
                else:
                    self.bad('acquire-raised:' + type(e).__name__,
                             f'acquire({a["db"]}) raised {type(e).__name__}: {e}')
                continue
            a['conn'] = t.result()

    # -- safety invariants (C15) -----------------------------------------
    def check_safety(self):
        pool = self.pool
        live = [c for c in self.conns if c.state in ('open', 'closing')]
        n_open = sum(1 for c in live if c.state == 'open')
        n_closing = sum(1 for c in live if c.state == 'closing')
        backend = sum(1 for c in live if not c.broken)
        if backend + self.opening > self.cap:
            self.bad('oversubscribed',
                     f'{backend} open (not handed back as broken) + '
                     f'{self.opening} being opened > max_capacity {self.cap}')
        truth = n_open + n_closing + self.opening
        if pool.current_capacity != truth:
            self.bad('usage-mismatch',
                     f'pool reports current_capacity={pool.current_capacity}, '
                     f'truth: open={n_open} opening={self.opening} '
                     f'closing={n_closing}')
        holders = {}
        for a in self.acquires:
            c = a['conn']
            if c is None or a['released']:
                continue
            if not isinstance(c, Conn):
                self.bad('lent-garbage', f'acquire returned {c!r}')
                continue
            if id(c) in holders:
                self.bad('double-lend', f'{c!r} lent to two acquirers at once')
            holders[id(c)] = a
            if c.state != 'open' or c.broken:
                self.bad('lent-not-open', f'{c!r} is lent but not open')
            if c.db != a['db']:
                self.bad('lent-wrong-db',
                         f'{c!r} lent for a request on {a["db"]}')
        self._check_exceptions()

    def _check_exceptions(self):
        for ctx in self.loop.exc_contexts:
            e = ctx.get('exception')
            if isinstance(e, (InjectedDisconnectError, InjectedConnectError)):
                continue
            # not a clause of C15/C16: recorded as an anomaly, the safety
            # and liveness oracles decide whether it had consequences
            self.anomaly('loop-exception:' + type(e).__name__ + ':' +
                         str(ctx.get('message'))[:60])
        self.loop.exc_contexts.clear()
        for t in self.loop.tasks:
            if t.done() and not t.cancelled() and not getattr(t, '_vp_seen', False):
                if any(t is a['task'] for a in self.acquires):
                    continue
                e = t.exception()
                try:
                    t._vp_seen = True
                except AttributeError:
                    pass
                if e is not None and not isinstance(
                        e, (InjectedDisconnectError, InjectedConnectError)):
                    self.anomaly('internal-task-raised:' + type(e).__name__)
        self.loop.tasks = [t for t in self.loop.tasks if not t.done()]


def run_safety(case):
    """C15: returns (violations, info)"""
    sim = Sim(case['cap'])
    applied = 0
    first = None
    try:
        for i, op in enumerate(case['ops']):
            try:
                if sim.op(op):
                    applied += 1
                sim.settle()
            except RuntimeError as e:
                if 'livelock' in str(e):
                    sim.bad('livelock', str(e))
                    break
                raise
            sim.check_safety()
            if sim.violations and first is None:
                first = i
                break
        info = _info(sim, case, applied)
        return list(sim.violations), info
    finally:
        sim.close()


def _info(sim, case, applied):
    dbs = {a['db'] for a in sim.acquires}
    waited = sum(1 for a in sim.acquires if not a['task'].done())
    return dict(applied=applied, dbs=len(dbs), acquires=len(sim.acquires),
                ever_waited=sum(1 for a in sim.acquires if a.get('waited')),
                transfers=sim.pool._successful_disconnects,
                conns=sim.nconn, still_waiting=waited,
                more_dbs_than_cap=len(dbs) > case['cap'],
                stats=dict(sim.stats), anomalies=dict(sim.anomalies),
                successful_connects=sim.pool._successful_connects,
                failed_connects=sim.pool.failed_connects)


def run_liveness(case):
    """C16: prefix (no disconnect failures, no pruning of busy blocks), then a
    fair closing phase.  Returns (violations, info)."""
    sim = Sim(case['cap'])
    applied = 0
    try:
        for op in case['ops']:
            if op[0] in ('disconnect_fail', 'prune_all'):
                continue
            if op[0] == 'prune':
                continue   # pruning is not among C16's premises
            if sim.op(op):
                applied += 1
            sim.settle()
        waited = sum(1 for a in sim.acquires if not a['task'].done())
        pending_before = [a for a in sim.acquires if not a['task'].done()]
        fail_db = case.get('fail_db')
        nreq = len(sim.acquires)
        ndbs = len({a['db'] for a in sim.acquires}) or 1
        bound = 50 * (nreq + case['cap'] + ndbs)
        order = case.get('close_order', 0)
        steps = 0
        while steps < bound:
            steps += 1
            progressed = False
            held = [a for a in sim.acquires
                    if a['conn'] is not None and not a['released']]
            if held:
                a = held[order % len(held)]
                sim.op(['release', sim_index(sim, a)])
                progressed = True
            sim.settle()
            while sim.pending_connects:
                db, _ = sim.pending_connects[0]
                if fail_db is not None and db == DBS[fail_db % len(DBS)]:
                    sim.op(['connect_fail', 0, 'err'])
                else:
                    sim.op(['connect_ok', 0])
                sim.settle()
                progressed = True
            while sim.pending_disconnects:
                sim.op(['disconnect_ok', 0])
                sim.settle()
                progressed = True
            if all(a['task'].done() for a in sim.acquires) and not any(
                    a['conn'] is not None and not a['released']
                    for a in sim.acquires):
                break
            # let time pass: ticks rebalance the pool.  Jump to the next
            # timer if it is further away (the tick interval follows the
            # average connect time, which a schedule can make long).
            nt = sim.loop.next_timer()
            dt = 0.013
            if nt is not None and not progressed:
                dt = max(dt, min(nt - sim.loop.clock.now + 0.001, 400.0))
            sim.loop.advance(dt)
            sim.settle()
        stuck = [a for a in sim.acquires if not a['task'].done()]
        if stuck:
            # root-cause class of the starvation (for telling known findings
            # from new ones; the verdict itself is only "still pending at K")
            pool = sim.pool
            parked = all(a.get('parked') for a in stuck)
            idle_elsewhere = any(
                len(b.conn_stack) > 0 and not b.count_waiters()
                for b in pool._blocks.values())
            if pool._htick is None:
                why = 'no-tick-scheduled'
            elif pool.current_capacity < case['cap']:
                if sim.stats['aborted'] or pool.failed_connects > 3:
                    why = 'idle-capacity:after-connect-retries-exhausted'
                elif parked:
                    why = 'idle-capacity:request-parked-while-pool-was-full'
                else:
                    why = 'idle-capacity:block-had-connections'
            elif pool._is_starving and idle_elsewhere:
                why = 'capacity-in-use:mode-d-idle-connection-in-block-without-waiters'
            else:
                why = 'capacity-in-use:other'
            sim.bad('starved:' + why,
                    f'{len(stuck)} acquire request(s) still pending after the '
                    f'fair closing phase ({steps} rounds, bound {bound}): '
                    f'{[a["db"] for a in stuck][:5]}; pool capacity '
                    f'{sim.pool.current_capacity}/{case["cap"]}, blocks='
                    f'{[(b.dbname, len(b.conns), b.pending_conns, b.count_waiters(), b.quota) for b in sim.pool._blocks.values()]}')
        if fail_db is not None:
            fdb = DBS[fail_db % len(DBS)]
            for a in sim.acquires:
                if a['db'] == fdb and a['task'].done() and not a['task'].cancelled():
                    pass
        sim._check_exceptions()
        viol = [v for v in sim.violations
                if v[0].startswith(('starved', 'acquire-raised', 'livelock'))]
        info = _info(sim, case, applied)
        info['waited_at_closing'] = waited
        info['closing_rounds'] = steps
        info['fail_db'] = fail_db is not None
        return viol, info
    finally:
        sim.close()


def sim_index(sim, a):
    held = [x for x in sim.acquires if x['conn'] is not None and not x['released']]
    return held.index(a)


def case_strategy(liveness: bool = False):
    from hypothesis import strategies as st
    idx = st.integers(0, 7)
    db_small = st.integers(0, 6)

    @st.composite
    def cases(draw):
        cap = draw(st.sampled_from([1, 1, 2, 2, 3, 4, 5]))
        ndb = draw(st.sampled_from([1, 2, 2, 3, 4, 7]))
        dbi = st.integers(0, ndb - 1)
        weights = [
            (6, st.tuples(st.just('acquire'), dbi)),
            (4, st.tuples(st.just('release'), idx)),
            (1, st.tuples(st.just('discard'), idx)),
            (5, st.tuples(st.just('connect_ok'), idx)),
            (1, st.tuples(st.just('connect_fail'), idx,
                          st.sampled_from(['err', 'err', '3D000']))),
            (4, st.tuples(st.just('disconnect_ok'), idx)),
            (3, st.tuples(st.just('advance'), st.integers(0, 5))),
        ]
        if not liveness:
            weights.append((1, st.tuples(st.just('prune'), dbi)))
            weights.append((1, st.tuples(st.just('disconnect_fail'), idx)))
            weights.append((1, st.tuples(st.just('prune_all'))))
        pool = []
        for w, s in weights:
            pool.extend([s] * w)
        ops = draw(st.lists(st.one_of(*pool), min_size=1, max_size=80))
        case = dict(cap=cap, ops=[list(o) for o in ops])
        if liveness:
            case['close_order'] = draw(st.integers(0, 3))
            if draw(st.integers(0, 4)) == 0:
                case['fail_db'] = draw(dbi)
        return case
    return cases()


def simplify_case(case):
    from vp_harness import core
    for sub in core.list_simplify(case['ops']):
        yield dict(case, ops=sub)
    if case['cap'] > 1:
        yield dict(case, cap=case['cap'] - 1)
    if 'fail_db' in case:
        c = dict(case)
        del c['fail_db']
        yield c
    for i, op in enumerate(case['ops']):
        if len(op) > 1 and isinstance(op[1], int) and op[1] > 0:
            ops = list(case['ops'])
            ops[i] = [op[0], 0] + list(op[2:])
            yield dict(case, ops=ops)
