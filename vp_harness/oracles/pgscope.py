"""Reference checker for PostgreSQL name scoping over the repository's pgast trees.

Written from the PostgreSQL manual (7.2.1 FROM clause incl. 7.2.1.5 LATERAL,
7.8 WITH queries, UPDATE / DELETE / INSERT reference pages), mirroring how
edb/pgsql/codegen.py prints each node (what the backend actually receives):

* a qualified column reference `a.c` must name a range variable `a` that is
  visible at that point: a FROM item of the same query level (for expressions
  of that level), a FROM item of any enclosing query level, the target of the
  enclosing DML statement, or - inside a LATERAL FROM item or a function in
  FROM - a FROM item that precedes it at the same level;
* a non-LATERAL sub-select in FROM sees enclosing levels only;
* a CTE name used as a relation must be declared by a WITH of the same or an
  enclosing query, before the use (or by the same WITH if RECURSIVE);
* if the range variable is a sub-select or CTE with a known output column
  list, `c` must be one of its columns.
Unqualified references are not judged.
"""
from __future__ import annotations


class Scope:
    __slots__ = ('parent', 'aliases')

    def __init__(self, parent=None, aliases=None):
        self.parent = parent
        self.aliases = aliases if aliases is not None else {}

    def lookup(self, a):
        s = self
        while s is not None:
            if a in s.aliases:
                return True, s.aliases[a]
            s = s.parent
        return False, None


class Checker:
    def __init__(self):
        from edb.pgsql import ast as pgast
        from edb.common import ast as cast
        self.pg = pgast
        self.cast = cast
        self.errors: list[tuple] = []
        self.colrefs = 0
        self.levels = 0
        self.lateral = 0
        self.cte_refs = 0

    # -- output column names ------------------------------------------------
    def outnames(self, q):
        pg = self.pg
        if isinstance(q, pg.CommonTableExpr):
            if q.aliascolnames:
                return set(q.aliascolnames)
            return self.outnames(q.query)
        if isinstance(q, pg.SelectStmt) and q.op:
            return self.outnames(q.larg)
        if isinstance(q, pg.SelectStmt) and q.values:
            return None
        if isinstance(q, pg.ReturningQuery):
            names = set()
            for t in q.target_list:
                if t.name:
                    names.add(t.name)
                elif isinstance(t.val, pg.ColumnRef):
                    last = t.val.name[-1]
                    if not isinstance(last, str):
                        return None
                    names.add(last)
                else:
                    return None
            return names
        return None

    def rv_outputs(self, rv):
        pg = self.pg
        if rv.alias is not None and rv.alias.colnames:
            return set(rv.alias.colnames)
        if isinstance(rv, pg.RangeSubselect):
            return self.outnames(rv.subquery)
        if isinstance(rv, pg.RelRangeVar):
            if isinstance(rv.relation, pg.CommonTableExpr):
                return self.outnames(rv.relation)
            if isinstance(rv.relation, pg.NullRelation):
                return self.outnames(rv.relation)
            return None
        return None

    @staticmethod
    def alias_of(rv):
        if rv.alias is not None and rv.alias.aliasname:
            return rv.alias.aliasname
        return None

    # -- expressions ----------------------------------------------------------
    def expr(self, node, scope, ctes):
        pg = self.pg
        if node is None:
            return
        if isinstance(node, pg.ColumnRef):
            self.colrefs += 1
            name = node.name
            if len(name) >= 2 and isinstance(name[0], str):
                if name[0] in ('OLD', 'NEW', 'excluded', 'EXCLUDED') and len(name) == 2:
                    return
                if len(name) > 2:
                    return   # schema-qualified; not produced for range variables
                found, outs = scope.lookup(name[0]) if scope is not None else (False, None)
                if not found:
                    self.errors.append(('rvar-out-of-scope', '.'.join(map(str, name))))
                elif outs is not None and isinstance(name[1], str) and name[1] not in outs:
                    self.errors.append(('unknown-column', '.'.join(map(str, name)), sorted(outs)[:6]))
            return
        if isinstance(node, pg.Query):
            self.query(node, scope, ctes)
            return
        if isinstance(node, pg.NullRelation):
            for t in node.target_list:
                self.expr(t, scope, ctes)
            self.expr(node.where_clause, scope, ctes)
            return
        if isinstance(node, pg.Base):
            for _f, v in self.cast.iter_fields(node, include_meta=False):
                self.val(v, scope, ctes)

    def val(self, v, scope, ctes):
        if isinstance(v, self.pg.Base):
            self.expr(v, scope, ctes)
        elif isinstance(v, (list, tuple)):
            for x in v:
                self.val(x, scope, ctes)
        elif isinstance(v, dict):
            for x in v.values():
                self.val(x, scope, ctes)

    # -- FROM items -------------------------------------------------------------
    def from_item(self, rv, outer, local, ctes):
        """outer: enclosing query levels; local: aliases of this level seen so far
        (mutated); a LATERAL item sees Scope(outer, local)"""
        pg = self.pg
        if isinstance(rv, pg.JoinExpr):
            self.from_item(rv.larg, outer, local, ctes)
            for j in rv.joins:
                self.from_item(j.rarg, outer, local, ctes)
                if j.quals is not None:
                    self.expr(j.quals, Scope(outer, local), ctes)
            return
        if isinstance(rv, pg.RangeSubselect):
            if rv.lateral:
                self.lateral += 1
                inner = Scope(outer, dict(local))
            else:
                inner = outer
            self.query(rv.subquery, inner, ctes)
        elif isinstance(rv, pg.RangeFunction):
            for fn in rv.functions:
                self.expr(fn, Scope(outer, dict(local)), ctes)
        elif isinstance(rv, pg.RelRangeVar):
            rel = rv.relation
            if isinstance(rel, pg.CommonTableExpr):
                self.cte_refs += 1
                if rel.name not in ctes:
                    self.errors.append(('cte-out-of-scope', rel.name))
                elif ctes[rel.name] is not rel:
                    # same name, different CTE object: shadowing is legal SQL; judged by name
                    pass
            elif isinstance(rel, pg.NullRelation):
                self.expr(rel, outer, ctes)
            elif isinstance(rel, pg.Query):
                self.query(rel, outer, ctes)
        else:
            self.errors.append(('unprintable-range-var', type(rv).__name__))
            return
        a = self.alias_of(rv)
        if a is None and isinstance(rv, pg.RelRangeVar) and isinstance(
                rv.relation, (pg.Relation, pg.CommonTableExpr)):
            a = rv.relation.name
        if a:
            local[a] = self.rv_outputs(rv)

    # -- queries --------------------------------------------------------------------
    def query(self, q, outer, ctes):
        pg = self.pg
        if q is None:
            return
        self.levels += 1
        if q.ctes:
            ctes = dict(ctes)
            recursive = bool(getattr(q.ctes[0], 'recursive', False))
            if recursive:
                for c in q.ctes:
                    ctes[c.name] = c
            for c in q.ctes:
                self.query(c.query, outer, ctes)
                ctes[c.name] = c
        if isinstance(q, pg.SelectStmt) and q.op:
            self.query(q.larg, outer, ctes)
            self.query(q.rarg, outer, ctes)
            return
        if isinstance(q, pg.SelectStmt):
            if q.values:
                self.val(q.values, outer, ctes)
                return
            local: dict = {}
            for rv in q.from_clause:
                self.from_item(rv, outer, local, ctes)
            body = Scope(outer, local)
            for f in ('distinct_clause', 'target_list', 'where_clause', 'group_clause',
                      'having_clause', 'window_clause', 'sort_clause', 'limit_offset',
                      'limit_count'):
                self.val(getattr(q, f, None), body, ctes)
            return
        if isinstance(q, pg.DMLQuery):
            local = {}
            a = self.alias_of(q.relation)
            rel = q.relation.relation
            if a is None and isinstance(rel, pg.Relation):
                a = rel.name
            if a:
                local[a] = None
            if isinstance(q, pg.InsertStmt):
                self.val(q.cols, Scope(outer, local), ctes)
                if q.select_stmt is not None:
                    self.query(q.select_stmt, outer, ctes)
                self.val(q.on_conflict, Scope(outer, local), ctes)
            elif isinstance(q, pg.UpdateStmt):
                for rv in q.from_clause:
                    self.from_item(rv, outer, local, ctes)
                body = Scope(outer, local)
                self.val(q.targets, body, ctes)
                self.val(q.where_clause, body, ctes)
            elif isinstance(q, pg.DeleteStmt):
                for rv in q.using_clause:
                    self.from_item(rv, outer, local, ctes)
                self.val(q.where_clause, Scope(outer, local), ctes)
            self.val(q.returning_list, Scope(outer, local), ctes)
            return
        # other statements: generic walk
        for _f, v in self.cast.iter_fields(q, include_meta=False):
            if _f != 'ctes':
                self.val(v, outer, ctes)


def check_tree(tree):
    """-> (errors, stats)"""
    c = Checker()
    c.query(tree, None, {}) if isinstance(tree, c.pg.Query) else c.expr(tree, None, {})
    return c.errors, dict(colrefs=c.colrefs, levels=c.levels, lateral=c.lateral, cte_refs=c.cte_refs)


def param_refs(tree):
    """-> {number: set of cast type names applied directly to the parameter}"""
    from edb.pgsql import ast as pgast
    from edb.common import ast as cast
    out: dict = {}
    seen = set()
    stack = [(tree, None)]
    while stack:
        n, parent = stack.pop()
        if isinstance(n, pgast.Base):
            if id(n) in seen:
                continue
            seen.add(id(n))
            if isinstance(n, pgast.ParamRef):
                ty = None
                if isinstance(parent, pgast.TypeCast) and parent.arg is n:
                    tn = parent.type_name
                    ty = ('.'.join(tn.name) if isinstance(tn.name, (tuple, list)) else str(tn.name)) + \
                        ('[]' if tn.array_bounds else '')
                out.setdefault(n.number, set())
                if ty:
                    out[n.number].add(ty)
                continue
            if isinstance(n, pgast.CommonTableExpr):
                stack.append((n.query, n))
                continue
            for _f, v in cast.iter_fields(n, include_meta=False):
                stack.append((v, n))
        elif isinstance(n, (list, tuple)):
            for x in n:
                stack.append((x, parent))
        elif isinstance(n, dict):
            for x in n.values():
                stack.append((x, parent))
    return out
