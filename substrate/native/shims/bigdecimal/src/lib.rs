//! Minimal stand-in for `bigdecimal::BigDecimal` as used by the EdgeQL
//! tokenizer: parse a decimal literal, print it back, convert to an integer
//! and format that integer in radix 16.  Representation: sign, decimal digit
//! string (no leading zeros), base-10 exponent.
use std::fmt;
use std::str::FromStr;

#[derive(Debug, Clone, PartialEq)]
pub struct BigDecimal { neg: bool, digits: Vec<u8>, exp: i64 }

#[derive(Debug, Clone, PartialEq)]
pub struct ParseBigDecimalError(String);
impl fmt::Display for ParseBigDecimalError {
    fn fmt(&self, f: &mut fmt::Formatter) -> fmt::Result { f.write_str(&self.0) }
}

impl FromStr for BigDecimal {
    type Err = ParseBigDecimalError;
    fn from_str(s: &str) -> Result<Self, Self::Err> {
        let err = |m: &str| ParseBigDecimalError(m.to_string());
        let (mant, exp) = match s.find(['e', 'E']) {
            Some(i) => (&s[..i], i64::from_str(s[i + 1..].trim_start_matches('+')).map_err(|_| err("invalid exponent"))?),
            None => (s, 0),
        };
        let (neg, mant) = match mant.strip_prefix('-') { Some(m) => (true, m), None => (false, mant.strip_prefix('+').unwrap_or(mant)) };
        let (ip, fp) = match mant.find('.') { Some(i) => (&mant[..i], &mant[i + 1..]), None => (mant, "") };
        if ip.is_empty() && fp.is_empty() { return Err(err("Failed to parse empty string")); }
        if !ip.bytes().chain(fp.bytes()).all(|b| b.is_ascii_digit()) { return Err(err("invalid digit found in string")); }
        let mut digits: Vec<u8> = ip.bytes().chain(fp.bytes()).map(|b| b - b'0').collect();
        let exp = exp - fp.len() as i64;
        let nz = digits.iter().position(|&d| d != 0).unwrap_or(digits.len());
        digits.drain(..nz);
        Ok(BigDecimal { neg: neg && !digits.is_empty(), digits, exp })
    }
}

impl fmt::Display for BigDecimal {
    fn fmt(&self, f: &mut fmt::Formatter) -> fmt::Result {
        // plain scientific form: always parseable by Python's float()/Decimal()
        if self.neg { f.write_str("-")?; }
        if self.digits.is_empty() { return f.write_str("0"); }
        for d in &self.digits { write!(f, "{}", d)?; }
        if self.exp != 0 { write!(f, "e{}", self.exp)?; }
        Ok(())
    }
}

impl serde::Serialize for BigDecimal {
    fn serialize<S: serde::Serializer>(&self, s: S) -> Result<S::Ok, S::Error> { s.collect_str(self) }
}
impl<'de> serde::Deserialize<'de> for BigDecimal {
    fn deserialize<D: serde::Deserializer<'de>>(d: D) -> Result<Self, D::Error> {
        let s = String::deserialize(d)?;
        s.parse().map_err(serde::de::Error::custom)
    }
}

pub mod num_bigint {
    use super::BigDecimal;
    #[derive(Debug, Clone, PartialEq)]
    pub struct BigInt { neg: bool, digits: Vec<u8> } // decimal digits, msd first
    pub trait ToBigInt { fn to_bigint(&self) -> Option<BigInt>; }
    impl ToBigInt for BigDecimal {
        fn to_bigint(&self) -> Option<BigInt> {
            // truncation toward zero, like bigdecimal's with_scale(0)
            let mut digits = self.digits.clone();
            if self.exp >= 0 {
                if !digits.is_empty() { digits.extend(std::iter::repeat(0).take(self.exp as usize)); }
            } else {
                let cut = (-self.exp) as usize;
                if cut >= digits.len() { digits.clear(); } else { digits.truncate(digits.len() - cut); }
            }
            Some(BigInt { neg: self.neg && !digits.is_empty(), digits })
        }
    }
    impl BigInt {
        pub fn to_str_radix(&self, radix: u32) -> String {
            assert!((2..=36).contains(&radix));
            if self.digits.is_empty() { return "0".to_string(); }
            let mut cur = self.digits.clone();
            let mut out = Vec::new();
            while !cur.is_empty() {
                let mut rem = 0u32;
                let mut next = Vec::with_capacity(cur.len());
                for &d in &cur {
                    let v = rem * 10 + d as u32;
                    let q = v / radix;
                    rem = v % radix;
                    if !next.is_empty() || q != 0 { next.push(q as u8); }
                }
                out.push(std::char::from_digit(rem, radix).unwrap());
                cur = next;
            }
            if self.neg { out.push('-'); }
            out.iter().rev().collect()
        }
    }
}
