"""C04 — schema stays referentially intact; earlier versions stay frozen.

Generated: DDL histories: a generated schema is created statement by statement
(the statements of its computed migration), followed by 4-14 commands drawn
from templates over the names in scope - renames, drops (also of referenced
objects), new pointers incl. ones named `source` / `target`, defaults calling
user functions and their reset, re-parenting, aliases, constraints, indexes,
annotations, scalars, functions, modules - with a share of invalid commands
(dangling reference, duplicate, cyclic inheritance, drop-while-referenced) and
multi-command ALTER blocks whose k-th sub-command is invalid; plus the
statements of a migration to a mutated schema.

Oracle (recompute-from-scratch invariants after every step, oracles/schemainv):
every reference resolves; name / global-name / short-name indexes equal the maps
recomputed from the objects' own names; the reverse reference index equals the
one recomputed from all reference fields (no stale, no missing entry); get /
get_by_id / get_referrers agree with them; dropped objects are in none of them;
a rejected command leaves the previous schema value untouched; every earlier
schema value still has the fingerprint it had when it was produced.
"""
from __future__ import annotations

from vp_harness import core, schemaenv as SE
from vp_harness.gen import sdl as G
from vp_harness.oracles import schemainv as INV

ID = 'C04'
LEVEL = 'exploration'
RULE = (
    'case = (initial SDL, list of DDL statements). Non-trivial = history with >=1 '
    'accepted drop/rename/reset after a reference to the affected object was created, '
    'or >=1 rejected command; distinct by hash of the statement-kind sequence + initial '
    'schema.')
ASSUMPTIONS = ['commands are applied one statement at a time through '
               'edb.testbase.lang.run_ddl (delta_from_ddl + apply), as the server does']
MIN_EVALS = {'quick': 100, 'thorough': 1500}


def preload():
    SE.setup()


def _names(schema):
    fs = INV._flat(schema)
    return set(fs._name_to_id.keys()), set(fs._id_to_data.keys())


def run_case(case):
    S = SE.setup()
    info = dict(accepted=0, rejected=0, internal=0, kinds=[])
    try:
        cur = SE.target_from_sdl(case['sdl'])
    except SE.Rejected:
        info['status'] = 'initial-rejected'
        return [], info
    info['status'] = 'ok'
    history = [(cur, INV.snapshot(cur))]
    v = INV.check(cur)
    if v:
        return [(f'initial:{v[0][0]}', v[0][1])], info
    for i, (kind, stmt) in enumerate(case['stmts']):
        before_snap = INV.snapshot(cur)
        names0, ids0 = _names(cur)
        try:
            nxt = S['tb'].BaseSchemaTest.run_ddl(cur, stmt)
        except S['errors'].EdgeDBError:
            info['rejected'] += 1
            info['kinds'].append('R:' + kind)
            if INV.snapshot(cur) != before_snap:
                return [('rejected-command-changed-schema',
                         f'step {i}: {stmt!r} was rejected but the schema value changed')], info
            continue
        except RecursionError:
            info['rejected'] += 1
            continue
        except Exception as e:
            # an internal error is a rejection too: nothing may have changed
            info['internal'] += 1
            info['kinds'].append('E:' + kind)
            if INV.snapshot(cur) != before_snap:
                return [('rejected-command-changed-schema',
                         f'step {i}: {stmt!r} raised {type(e).__name__} and the schema value changed')], info
            continue
        if INV.snapshot(cur) != before_snap:
            return [('old-version-mutated',
                     f'step {i}: applying {stmt!r} changed the previous schema value in place')], info
        info['accepted'] += 1
        info['kinds'].append('A:' + kind)
        names1, ids1 = _names(nxt)
        v = INV.check(nxt, dropped_names=names0 - names1, dropped_ids=ids0 - ids1)
        if v:
            hist = '\n'.join(f'  {k}: {s}' for k, s in case['stmts'][:i + 1])
            return [(f'{v[0][0]}|after:{kind}',
                     f'after step {i} ({stmt!r}): {v[0][1]}' + (f'; {v[1][1]}' if len(v) > 1 else '')
                     + f'\n--- initial ---\n{case["sdl"]}\n--- history ---\n{hist}')], info
        cur = nxt
        history.append((cur, INV.snapshot(cur)))
    for j, (sch, snap) in enumerate(history):
        if INV.snapshot(sch) != snap:
            return [('earlier-version-changed',
                     f'the schema value obtained after accepted step {j} no longer has the '
                     f'fingerprint it had then')], info
    return [], info


def _statements_of(sdl_from, sdl_to):
    """statements of the computed migration from one schema to another"""
    S = SE.setup()
    try:
        a = SE.target_from_sdl(sdl_from) if sdl_from.strip() else S['std']
        r = SE.migrate(a, sdl_to)
    except SE.Rejected:
        return []
    script = SE.last_migration_script(r) or ''
    try:
        stmts = S['edgeql'].parse_block(script)
    except Exception:
        return []
    return [S['edgeql'].generate_source(s) + ';' for s in stmts]


def _strategy():
    from hypothesis import strategies as st

    @st.composite
    def cases(draw):
        s = draw(G.schema_strategy())
        sdl = G.render(s)
        types = [(m, d) for m, ds in s['modules'].items() for d in ds if d['kind'] == 'type']
        tnames = [G.qname(m, d['name']) for m, d in types]
        scalars = [G.qname(m, d['name']) for m, ds in s['modules'].items() for d in ds
                   if d['kind'] == 'scalar']
        has_fn = any(d['kind'] == 'function' for ds in s['modules'].values() for d in ds)
        has_note = any(d['kind'] == 'annotation' for ds in s['modules'].values() for d in ds)
        stmts = []
        n = draw(st.integers(4, 14))
        new_i = 0
        for _ in range(n):
            if not tnames:
                break
            q = draw(st.sampled_from(tnames))
            m, d = types[tnames.index(q)]
            ptrs = [mm for mm in d['members'] if mm['kind'] in ('property', 'link')]
            props = [mm['name'] for mm in ptrs if mm['kind'] == 'property' and mm.get('expr') is None
                     and not mm.get('overloaded')]
            links = [mm['name'] for mm in ptrs if mm['kind'] == 'link' and mm.get('expr') is None]
            q2 = draw(st.sampled_from(tnames))
            k = draw(st.integers(0, 39))
            new_i += 1
            if k in (34, 35) and props:
                # an owned index (its full name embeds the owner and the expression), then a rename
                # of the owner, a move to another module, or a rename of the indexed property
                p = draw(st.sampled_from(props))
                stmts.append(('add-index', f'alter type {q} {{ create index on (.{p}) }};'))
                r = draw(st.integers(0, 3))
                if r == 0:
                    stmts.append(('rename-type-with-index', f'alter type {q} rename to {q}I{new_i};'))
                    stmts.append(('drop-index', f'alter type {q}I{new_i} {{ drop index on (.{p}) }};'))
                elif r == 1:
                    stmts.append(('create-module', f'create module mv{new_i};'))
                    stmts.append(('move-type-with-index', f"alter type {q} rename to mv{new_i}::{q.split('::')[-1]};"))
                    stmts.append(('drop-index', f"alter type mv{new_i}::{q.split('::')[-1]} {{ drop index on (.{p}) }};"))
                elif r == 2:
                    stmts.append(('rename-indexed-ptr', f'alter type {q} {{ alter property {p} rename to {p}i{new_i} }};'))
                    stmts.append(('drop-index', f'alter type {q} {{ drop index on (.{p}i{new_i}) }};'))
                else:
                    stmts.append(('add-constraint', f'alter type {q} {{ create constraint exclusive on (.{p}) }};'))
                    stmts.append(('rename-type-with-index', f'alter type {q} rename to {q}I{new_i};'))
            elif k in (36, 37):
                # functions: rename within the module, to another module keeping the local name,
                # overloads, and a rename of a parameter type (changes the function's full name)
                stmts.append(('create-fn', f'create function default::g{new_i}(a: int64) -> int64 using (a + {new_i});'))
                r = draw(st.integers(0, 4))
                if r == 0:
                    stmts.append(('rename-fn', f'alter function default::g{new_i}(a: int64) rename to default::h{new_i};'))
                    stmts.append(('drop-fn', f'drop function default::h{new_i}(a: int64);'))
                elif r == 1:
                    stmts.append(('create-module', f'create module fm{new_i};'))
                    stmts.append(('move-fn', f'alter function default::g{new_i}(a: int64) rename to fm{new_i}::g{new_i};'))
                    if draw(st.booleans()):
                        stmts.append(('drop-fn', f'drop function fm{new_i}::g{new_i}(a: int64);'))
                elif r == 2:
                    stmts.append(('create-fn-overload', f"create function default::g{new_i}(a: str) -> str using (a ++ 'x');"))
                    stmts.append(('drop-fn', f'drop function default::g{new_i}(a: int64);'))
                elif r == 3:
                    stmts.append(('create-scalar', f'create scalar type default::FS{new_i} extending str;'))
                    stmts.append(('create-fn', f'create function default::gs{new_i}(a: default::FS{new_i}) -> str using (<str>a);'))
                    stmts.append(('rename-scalar-of-fn', f'alter scalar type default::FS{new_i} rename to default::FSr{new_i};'))
                    if draw(st.booleans()):
                        stmts.append(('drop-fn', f'drop function default::gs{new_i}(a: default::FSr{new_i});'))
                else:
                    stmts.append(('add-prop-default-fn', f'alter type {q} {{ create property dg{new_i} -> int64 {{ set default := default::g{new_i}(1) }} }};'))
                    stmts.append(('rename-fn', f'alter function default::g{new_i}(a: int64) rename to default::h{new_i};'))
            elif k in (38, 39):
                stmts.append(('create-module', f'create module tm{new_i};'))
                stmts.append(('move-type', f"alter type {q} rename to tm{new_i}::{q.split('::')[-1]};"))
            elif k == 0:
                stmts.append(('rename-type', f'alter type {q} rename to {q}X{new_i};'))
            elif k == 1 and ptrs:
                p = draw(st.sampled_from(ptrs))
                stmts.append(('rename-ptr', f"alter type {q} {{ alter {p['kind']} {p['name']} rename to {p['name']}x{new_i} }};"))
            elif k == 2:
                stmts.append(('drop-type', f'drop type {q};'))
            elif k == 3 and ptrs:
                p = draw(st.sampled_from(ptrs))
                stmts.append(('drop-ptr', f"alter type {q} {{ drop {p['kind']} {p['name']} }};"))
            elif k == 4:
                stmts.append(('add-prop', f"alter type {q} {{ create property n{new_i} -> str {{ set default := 'x' }} }};"))
            elif k in (5, 6):
                stmts.append(('create-fn', f'create function default::f{new_i}(a: int64) -> int64 using (a + {new_i});'))
                stmts.append(('add-prop-default-fn', f'alter type {q} {{ create property d{new_i} -> int64 {{ set default := default::f{new_i}(1) }} }};'))
                r = draw(st.integers(0, 3))
                if r == 0:
                    stmts.append(('reset-default', f'alter type {q} {{ alter property d{new_i} reset default }};'))
                    stmts.append(('drop-fn', f'drop function default::f{new_i}(a: int64);'))
                elif r == 1:
                    stmts.append(('drop-fn-referenced', f'drop function default::f{new_i}(a: int64);'))
                elif r == 2:
                    stmts.append(('reset-default', f'alter type {q} {{ alter property d{new_i} reset default }};'))
                    stmts.append(('drop-ptr', f'alter type {q} {{ drop property d{new_i} }};'))
                    stmts.append(('drop-fn', f'drop function default::f{new_i}(a: int64);'))
            elif k in (7, 8):
                nm = draw(st.sampled_from(['target', 'source', f's{new_i}']))
                kind = draw(st.sampled_from(['scalar type', 'enum']))
                if kind == 'enum':
                    stmts.append(('create-scalar', f'create scalar type default::NS{new_i} extending enum<A, B>;'))
                else:
                    stmts.append(('create-scalar', f'create scalar type default::NS{new_i} extending str;'))
                stmts.append(('add-prop-user-scalar', f'alter type {q} {{ create property {nm} -> default::NS{new_i} }};'))
                r = draw(st.integers(0, 2))
                if r == 0:
                    stmts.append(('drop-scalar-referenced', f'drop scalar type default::NS{new_i};'))
                elif r == 1:
                    stmts.append(('drop-ptr', f'alter type {q} {{ drop property {nm} }};'))
                    stmts.append(('drop-scalar', f'drop scalar type default::NS{new_i};'))
            elif k == 9:
                stmts.append(('add-link', f'alter type {q} {{ create multi link nl{new_i} -> {q2} {{ create property lp -> str }} }};'))
            elif k == 10 and links:
                l = draw(st.sampled_from(links))
                stmts.append(('add-linkprop', f'alter type {q} {{ alter link {l} {{ create property lp{new_i} -> int64 }} }};'))
            elif k == 11 and q2 != q:
                stmts.append(('add-base', f'alter type {q} extending {q2} last;'))
            elif k == 12 and d['bases']:
                stmts.append(('drop-base', f"alter type {q} drop extending {d['bases'][0]};"))
            elif k == 13:
                stmts.append(('create-alias', f'create alias default::A{new_i} := (select {q});'))
                if draw(st.booleans()):
                    stmts.append(('drop-alias', f'drop alias default::A{new_i};'))
            elif k == 14 and props:
                p = draw(st.sampled_from(props))
                stmts.append(('add-constraint', f'alter type {q} {{ create constraint exclusive on (.{p}) }};'))
                if draw(st.booleans()):
                    stmts.append(('drop-constraint', f'alter type {q} {{ drop constraint exclusive on (.{p}) }};'))
            elif k == 15 and props:
                p = draw(st.sampled_from(props))
                stmts.append(('add-index', f'alter type {q} {{ create index on (.{p}) }};'))
                if draw(st.booleans()):
                    stmts.append(('drop-index', f'alter type {q} {{ drop index on (.{p}) }};'))
            elif k == 16:
                stmts.append(('create-annotation', f'create abstract annotation default::an{new_i};'))
                stmts.append(('annotate', f"alter type {q} create annotation default::an{new_i} := 'v';"))
                r = draw(st.integers(0, 2))
                if r == 0:
                    stmts.append(('drop-annotation-referenced', f'drop abstract annotation default::an{new_i};'))
                elif r == 1:
                    stmts.append(('drop-annotation-value', f'alter type {q} drop annotation default::an{new_i};'))
                    stmts.append(('drop-annotation', f'drop abstract annotation default::an{new_i};'))
            elif k == 17 and props:
                p = draw(st.sampled_from(props))
                stmts.append(('add-computed', f'alter type {q} {{ create property cc{new_i} := (.{p}) }};'))
                if draw(st.booleans()):
                    stmts.append(('drop-ptr-referenced', f'alter type {q} {{ drop property {p} }};'))
            elif k == 18:
                stmts.append(('create-module', f'create module m{new_i};'))
                stmts.append(('create-type', f'create type m{new_i}::M {{ create link l -> {q} }};'))
                if draw(st.booleans()):
                    stmts.append(('drop-type-referenced', f'drop type {q};'))
                else:
                    stmts.append(('drop-type', f'drop type m{new_i}::M;'))
                    stmts.append(('drop-module', f'drop module m{new_i};'))
            elif k == 19:
                stmts.append(('create-global', f'create global default::gg{new_i} := (count({q}));'))
            elif k == 20:   # invalid: dangling
                stmts.append(('bad-dangling', f'alter type {q} {{ create property bad{new_i} -> default::NoSuchType }};'))
            elif k == 21:   # invalid: duplicate
                stmts.append(('bad-duplicate', f'create type {q};'))
            elif k == 22:   # invalid: cycle
                stmts.append(('bad-cycle', f'alter type {q} extending {q} last;'))
            elif k in (23, 24):   # block failing part-way
                stmts.append(('bad-partway', f'alter type {q} {{ create property ok{new_i} -> str; '
                              f'create link okl{new_i} -> {q2}; create property bad{new_i} -> default::NoSuch; }};'))
            elif k == 25 and scalars:
                sc = draw(st.sampled_from(scalars))
                stmts.append(('drop-scalar-maybe-referenced', f'drop scalar type {sc};'))
            elif k == 26 and has_fn:
                stmts.append(('drop-fn-maybe-referenced', 'drop function default::fn(a: int64);'))
            elif k == 27 and has_note:
                stmts.append(('drop-annotation-maybe-referenced', 'drop abstract annotation default::note;'))
            elif k == 28 and props:
                p = draw(st.sampled_from(props))
                stmts.append(('add-policy', f'alter type {q} {{ create access policy pol{new_i} allow all using (exists .{p}) }};'))
                if draw(st.booleans()):
                    stmts.append(('drop-ptr-referenced', f'alter type {q} {{ drop property {p} }};'))
            elif k == 29 and ptrs:
                p = draw(st.sampled_from(ptrs))
                if p.get('expr') is None:
                    stmts.append(('set-multi', f"alter type {q} {{ alter {p['kind']} {p['name']} set multi }};"))
            elif k == 30:
                stmts.append(('set-abstract', f'alter type {q} set abstract;'))
            elif k >= 31:
                # a whole computed migration towards a mutated schema, statement by statement
                s2, _e = G.mutate(s, draw)
                for stx in _statements_of(sdl, G.render(s2))[:8]:
                    stmts.append(('migration-stmt', stx))
        return dict(sdl=sdl, stmts=[list(x) for x in stmts])
    return cases()


def _run(rec, case):
    viol, info = run_case(case)
    if info.get('status') != 'ok':
        rec.evaluations += 1
        rec.skip(info.get('status', '?'))
        return
    kinds = info['kinds']
    acc = [k[2:] for k in kinds if k.startswith('A:')]
    nontrivial = info['rejected'] > 0 or any(
        k.startswith(('drop', 'rename', 'reset')) for k in acc)
    cls = sorted({'accepted:' + k for k in acc} | {'rejected:' + k[2:] for k in kinds if k[0] in 'RE'})
    rec.case({'sdl': case['sdl'], 'kinds': [k for k, _ in case['stmts']]},
             nontrivial=nontrivial, classes=cls,
             sample={'stmts': [s for _, s in case['stmts']][:8]})
    rec.extra['steps_accepted'] = rec.extra.get('steps_accepted', 0) + info['accepted']
    rec.extra['steps_rejected'] = rec.extra.get('steps_rejected', 0) + info['rejected']
    rec.extra['steps_internal_error'] = rec.extra.get('steps_internal_error', 0) + info['internal']
    for sig, detail in viol[:1]:
        rec.violation(sig, case, detail)


def shard(rec, idx, nshards, seed, tier):
    SE.setup()
    n = 9 if tier == 'quick' else 150
    core.run_given(_strategy(), lambda c: _run(rec, c), seed=seed * 1000 + idx,
                   max_examples=n)


def replay(case):
    SE.setup()
    viol, _ = run_case(case)
    return '; '.join(f'{s}: {d}' for s, d in viol[:2]) or None


def shrink(case, sig):
    def fails(c):
        v, _ = run_case(c)
        return any(s == sig for s, _ in v)

    def simplify(c):
        for sub in core.list_simplify(c['stmts']):
            yield dict(c, stmts=sub)
    return core.greedy_shrink(case, fails, simplify, budget_s=90)
