#!/bin/bash
# tools/make_subst.sh: (re)create /root/subst, the stand-alone copy of the substrate that seeding
# sub-agents use (they must not read /verif).  Contains substrate/ + edbenv.py + README.md only.
set -e
rm -rf /root/subst; mkdir -p /root/subst
cp -r /verif/substrate /root/subst/substrate
cp /verif/tools/subst/README.md /verif/tools/subst/edbenv.py /root/subst/
echo "created /root/subst"
