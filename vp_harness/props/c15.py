"""C15 — the connection pool never oversubscribes or double-lends the backend.

Generated: operation/fault schedules (acquire, release, discard, connect and
disconnect completion in any order, connect failures incl. 3D000, disconnect
failures, clock advances that fire ticks / GC / log timers, pruning) over
capacity 1-5 and 1-7 databases, executed on a harness-owned event loop with a
virtual clock; thorough adds exhaustive enumeration of short schedules.

Oracle: invariants over the *true* backend state kept by the connect /
disconnect callbacks, checked after every step.
"""
from __future__ import annotations

import itertools

from vp_harness import core
from vp_harness.props import _pool

ID = 'C15'
LEVEL = 'exploration'
RULE = (
    'case = (max_capacity, schedule of <=80 ops) run step by step with the ready '
    'queue drained after each op; invariants checked after every step: open(not '
    'handed back broken)+opening <= max_capacity; current_capacity == open+opening+'
    'closing; a connection is lent to <=1 acquirer, is open while lent and belongs to '
    'the requested database; no unexpected exception in acquire, release, pool tasks '
    'or the loop handler. Non-trivial = >=2 databases and at least one request had to '
    'wait, or a connect failure / discard / prune / transfer happened; distinct by '
    'schedule hash.')
ASSUMPTIONS = [
    'asyncio callbacks run FIFO; all interleavings of completion events and timers are '
    'explored through the schedule, not thread-level preemption',
    'prune_all_connections (HA failover) is only issued while nothing is lent or waiting: '
    'it revokes lent connections by design',
]
MIN_EVALS = {'quick': 3000, 'thorough': 100000}


def preload():
    _pool._pool_mod()


def _nontrivial(info):
    st = info['stats']
    return (info['dbs'] >= 2 and info['ever_waited'] > 0) or \
        st['connect_failures'] or st['discards'] or st['prunes'] or \
        info['transfers'] > 0


def _classes(case, info):
    out = [f'cap={case["cap"]}']
    if info['more_dbs_than_cap']:
        out.append('more-dbs-than-capacity')
    st = info['stats']
    for k in ('connect_failures', 'discards', 'prunes'):
        if st[k]:
            out.append('has-' + k)
    if info['transfers']:
        out.append('disconnects-completed(transfer/discard/gc)')
    if info['ever_waited']:
        out.append('some-request-waited')
    if any(op[0] == 'advance' and op[1] % 6 == 5 for op in case['ops']):
        out.append('gc-interval-passed')
    return out


def _run(rec, case):
    viol, info = _pool.run_safety(case)
    rec.case(case, nontrivial=bool(_nontrivial(info)), classes=_classes(case, info),
             sample={'cap': case['cap'], 'ops': case['ops'][:25],
                     'n_ops': len(case['ops'])})
    rec.extra['ops_applied'] = rec.extra.get('ops_applied', 0) + info['applied']
    for sig, detail in viol[:1]:
        rec.violation(sig, case, detail)
    if info['anomalies']:
        an = rec.extra.setdefault('anomalies_not_judged', {})
        for k, v in info['anomalies'].items():
            an[k] = an.get(k, 0) + v


OPS_SMALL = [['acquire', 0], ['acquire', 1], ['release', 0], ['release', 1],
             ['discard', 0], ['connect_ok', 0], ['connect_ok', 1],
             ['connect_fail', 0, 'err'], ['disconnect_ok', 0],
             ['advance', 1], ['advance', 5], ['prune', 0]]


def shard(rec, idx, nshards, seed, tier):
    _pool._pool_mod()
    n = 300 if tier == 'quick' else 12000
    core.run_given(_pool.case_strategy(False), lambda c: _run(rec, c),
                   seed=seed * 1000 + idx, max_examples=n)
    # exhaustive short schedules
    L = 4 if tier == 'quick' else 5
    total = 0
    k = 0
    for cap in (1, 2):
        for ops in itertools.product(OPS_SMALL, repeat=L):
            if k % nshards == idx:
                case = dict(cap=cap, ops=[list(o) for o in ops])
                viol, info = _pool.run_safety(case)
                rec.evaluations += 1
                total += 1
                if _nontrivial(info):
                    rec.nontrivial_enum += 1
                for sig, detail in viol[:1]:
                    rec.violation(sig, case, detail)
            k += 1
    rec.extra.setdefault('exhaustive_spaces', {})[
        f'all schedules of length {L} over {len(OPS_SMALL)} ops, cap in (1,2)'] = total


def replay(case):
    viol, _ = _pool.run_safety(case)
    return '; '.join(f'{s}: {d}' for s, d in viol[:3]) or None


def shrink(case, sig):
    def fails(c):
        v, _ = _pool.run_safety(c)
        return any(s == sig for s, _ in v)
    return core.greedy_shrink(case, fails, _pool.simplify_case, budget_s=60)
