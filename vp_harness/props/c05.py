"""C05 — backend tables and columns track the schema through every migration.

Generated: DDL histories (6-14 commands) over a pool of 4 type names, 4 property names
and 3 link names: create / drop / rename of types and pointers, single <-> multi,
required <-> optional, adding / removing link properties, adding / dropping bases,
abstract <-> concrete, computed <-> stored, inherited pointers, links to self and to
other types.  Every command is compiled by the server compiler (so that
_process_delta runs CommandMeta.adapt -> apply -> generate); rejected commands are
skipped (counted).

Oracle (two different code paths): the harness records the dbops command tree at
generate() time and interprets it over a model catalog {table -> columns}: CreateTable,
DropTable, AlterTable with AddColumn / DropColumn fragments, with TableExists /
ColumnExists (neg)conditions evaluated on the model, parent conditions gating children.
After every accepted command the model must equal what the query compiler will
address for the resulting schema: a table for every object type / link / multi
property for which types.has_table() holds, and a column for every pointer stored in
its source table according to types.get_pointer_storage_info(), under
common.get_backend_name() names.  No missing table or column, none left over.
"""
from __future__ import annotations

import re

from vp_harness import core, env

ID = 'C05'
LEVEL = 'exploration'
RULE = (
    'case = one DDL history. Non-trivial = at least 4 commands accepted, among them a change of the storage '
    'class of a live pointer (single<->multi, computed<->stored, link property added/removed), a change of '
    'bases, or a drop; distinct by the accepted command sequence.')
ASSUMPTIONS = [
    'no PostgreSQL: the backend catalog is the harness interpretation (~120 lines) of the dbops command '
    'objects the DDL compiler generates; column types, constraints, triggers, views and data movement are '
    'not modelled; a history containing a raw dbops.Query with table DDL is excluded from the verdict',
    'the __type__ pseudo-link is never stored (delta.py: "We optimize away __type__") and is not expected',
]
MIN_EVALS = {'quick': 100, 'thorough': 2500}

TYPES = ['A', 'B', 'C', 'D']
PROPS = ['p0', 'p1', 'p2', 'p3']
LINKS = ['l0', 'l1', 'l2']
_S: dict = {}
_STACK: list = []
_REC: list = []


def preload():
    if _S:
        return _S
    tb = env.load_std()
    from edb import errors, edgeql
    from edb.schema import schema as s_schema, objtypes as s_objtypes, pointers as s_pointers
    from edb.server import compiler as edbcompiler
    from edb.server.compiler import compiler as cmod
    from edb.pgsql import types as pgtypes, common as pgcommon
    from edb.pgsql.dbops import base as dbase, tables as dtables
    compiler = tb.new_compiler()
    orig = dbase.Command.generate

    def rec(self, block):
        node = dict(cmd=self, children=[])
        (_STACK[-1]['children'] if _STACK else _REC).append(node)
        _STACK.append(node)
        try:
            return orig(self, block)
        finally:
            _STACK.pop()
    dbase.Command.generate = rec
    # subclasses that override generate() without calling the base implementation
    for cls in list(_all_subclasses(dbase.Command)):
        if 'generate' in cls.__dict__ and cls.__dict__['generate'] is not rec:
            _wrap_generate(cls)
    _S.update(tb=tb, errors=errors, edgeql=edgeql, s_schema=s_schema, s_objtypes=s_objtypes,
              s_pointers=s_pointers, edbcompiler=edbcompiler, cmod=cmod, pgtypes=pgtypes,
              pgcommon=pgcommon, dbase=dbase, dtables=dtables, compiler=compiler)
    return _S


def _all_subclasses(c):
    for s in c.__subclasses__():
        yield s
        yield from _all_subclasses(s)


def _wrap_generate(cls):
    orig = cls.__dict__['generate']

    def rec(self, block):
        node = dict(cmd=self, children=[])
        (_STACK[-1]['children'] if _STACK else _REC).append(node)
        _STACK.append(node)
        try:
            return orig(self, block)
        finally:
            _STACK.pop()
    rec._verif_wrapped = True
    if not getattr(orig, '_verif_wrapped', False):
        cls.generate = rec


# ----------------------------------------------------------------------
# model catalog

class Catalog:
    def __init__(self):
        self.tables: dict = {}      # (schema, name) -> set(columns)
        self.unmodelled: list = []

    def cond(self, c):
        dt = _S['dtables']
        if isinstance(c, dt.TableExists):
            return tuple(c.name) in self.tables
        if isinstance(c, dt.ColumnExists):
            return c.column_name in self.tables.get(tuple(c.table_name), ())
        return None     # unknown condition

    def runs(self, cmd):
        dt = _S['dtables']
        table_cmd = isinstance(cmd, (dt.CreateTable, dt.DropTable, dt.AlterTable, dt.AlterTableFragment))
        for c in getattr(cmd, 'conditions', ()) or ():
            r = self.cond(c) if not isinstance(c, str) else None
            if r is None:
                # a condition the model does not know: only matters if it gates table DDL
                if table_cmd:
                    self.unmodelled.append(f'condition {type(c).__name__} on {type(cmd).__name__}')
                continue
            if not r:
                return False
        for c in getattr(cmd, 'neg_conditions', ()) or ():
            r = self.cond(c) if not isinstance(c, str) else None
            if r is None:
                if table_cmd:
                    self.unmodelled.append(f'neg-condition {type(c).__name__} on {type(cmd).__name__}')
                continue
            if r:
                return False
        return True

    def apply(self, node):
        dt, db = _S['dtables'], _S['dbase']
        cmd = node['cmd']
        if not self.runs(cmd):
            return
        if isinstance(cmd, dt.CreateTable):
            t = cmd.table
            self.tables[tuple(t.name)] = {c.name for c in t.iter_columns()}
        elif isinstance(cmd, dt.DropTable):
            self.tables.pop(tuple(cmd.name), None)
        elif isinstance(cmd, dt.AlterTable):
            name = tuple(cmd.name)
            for sub in cmd.ops:
                op, conds, negs = (sub if isinstance(sub, tuple) else (sub, (), ()))
                ok = True
                for c in conds or ():
                    r = self.cond(c)
                    ok = ok and (r is not False)
                for c in negs or ():
                    r = self.cond(c)
                    ok = ok and (r is not True)
                if not ok:
                    continue
                if not self.runs(op):
                    continue
                if isinstance(op, dt.AlterTableAddColumn):
                    self.tables.setdefault(name, set()).add(op.attribute.name)
                elif isinstance(op, dt.AlterTableDropColumn):
                    self.tables.setdefault(name, set()).discard(op.attribute.name)
                elif type(op).__name__ in ('AlterTableRenameTo', 'AlterTableRenameColumn', 'AlterTableSetSchema'):
                    self.unmodelled.append(type(op).__name__)
        elif isinstance(cmd, db.Query):
            txt = getattr(cmd, 'text', '') or ''
            if re.search(r'\\b(ALTER|DROP|CREATE)\\s+TABLE\\b', txt, re.I):
                self.unmodelled.append('raw query with table DDL')
        elif type(cmd).__name__ in ('RenameTable', 'AlterTableRenameTo'):
            self.unmodelled.append(type(cmd).__name__)
        for ch in node['children']:
            self.apply(ch)


def expected(schema):
    S = _S
    pgt, pgc = S['pgtypes'], S['pgcommon']
    tabs: dict = {}
    for obj in schema.get_objects(exclude_stdlib=True, type=S['s_objtypes'].ObjectType):
        if obj.is_compound_type(schema) or obj.is_view(schema):
            continue
        if str(obj.get_name(schema).module) != 'default':
            continue
        if pgt.has_table(obj, schema):
            tabs.setdefault(tuple(pgc.get_backend_name(schema, obj, catenate=False)), set())
        for pn, ptr in obj.get_pointers(schema).items(schema):
            if str(pn) == '__type__':
                continue
            if ptr.is_pure_computable(schema):
                continue
            info = pgt.get_pointer_storage_info(ptr, schema=schema)
            if info.table_type == 'ObjectType':
                if info.table_name is not None:
                    tabs.setdefault(tuple(info.table_name), set()).add(info.column_name)
            if pgt.has_table(ptr, schema):
                lt = tuple(pgc.get_backend_name(schema, ptr, catenate=False))
                cols = tabs.setdefault(lt, set())
                # a link / multi-property table always has source and target
                cols.update({'source', 'target'})
                for lpn, lp in (ptr.get_pointers(schema).items(schema)
                                if hasattr(ptr, 'get_pointers') else ()):
                    if str(lpn) in ('source', 'target') or lp.is_pure_computable(schema):
                        continue
                    li = pgt.get_pointer_storage_info(lp, schema=schema)
                    cols.add(li.column_name)
    return tabs


# ----------------------------------------------------------------------

def run_case(case):
    S = preload()
    ctx = S['edbcompiler'].new_compiler_context(
        compiler_state=S['compiler'].state, user_schema=S['s_schema'].EMPTY_SCHEMA,
        modaliases={None: 'default'})
    cat = Catalog()
    info = dict(status='ok', accepted=[], rejected=0, kinds=[])
    viol = []

    def run(text):
        _REC.clear()
        _STACK.clear()
        S['cmod'].compile(ctx=ctx, source=S['edgeql'].Source.from_string(text))
        for node in list(_REC):
            cat.apply(node)
    run('create module default')
    for kind, text in case['stmts']:
        try:
            run(text)
        except S['errors'].InternalServerError as e:
            info['status'] = 'compiler-crash'
            info['why'] = str(e)[:60]
            break
        except S['errors'].EdgeDBError:
            info['rejected'] += 1
            continue
        except (AssertionError, KeyError, AttributeError, TypeError, ValueError, IndexError,
                RecursionError) as e:
            info['status'] = 'compiler-crash'
            info['why'] = f'{type(e).__name__}: {str(e)[:50]}'
            break
        info['accepted'].append(text)
        info['kinds'].append(kind)
        if cat.unmodelled:
            info['status'] = 'unmodelled'
            info['why'] = cat.unmodelled[0]
            break
        schema = ctx.state.current_tx().get_schema(S['compiler'].state.std_schema)
        exp = expected(schema)
        have = {k: v for k, v in cat.tables.items() if k[0] == 'edgedbpub'}
        names = _names(schema)
        missing_t = sorted(set(exp) - set(have))
        extra_t = sorted(set(have) - set(exp))
        hist = '\n'.join(f'  {i}: {t}' for i, t in enumerate(info['accepted']))
        if missing_t:
            viol.append((f'missing-table:after-{kind}',
                         f'after `{text}`: the query compiler addresses table {names.get(missing_t[0], missing_t[0])} '
                         f'but the emitted DDL has not created it (or has dropped it)\n--- history ---\n{hist}'))
            break
        if extra_t:
            viol.append((f'leftover-table:after-{kind}',
                         f'after `{text}`: table {extra_t[0]} exists in the backend but nothing in the schema '
                         f'uses it\n--- history ---\n{hist}'))
            break
        bad = False
        for t in exp:
            miss = exp[t] - have[t]
            extra = have[t] - exp[t] - {'__type__'}
            if miss:
                viol.append((f'missing-column:after-{kind}',
                             f'after `{text}`: table {names.get(t, t)} lacks column(s) '
                             f'{[names.get((t, c), c) for c in sorted(miss)]} that the query compiler will read'
                             f'\n--- history ---\n{hist}'))
                bad = True
                break
            if extra:
                viol.append((f'leftover-column:after-{kind}',
                             f'after `{text}`: table {names.get(t, t)} keeps column(s) {sorted(extra)} that no '
                             f'pointer of the schema is stored in\n--- history ---\n{hist}'))
                bad = True
                break
        if bad:
            break
    return viol, info


def _names(schema):
    """backend name -> readable name (for messages)"""
    S = _S
    out = {}
    for obj in schema.get_objects(exclude_stdlib=True, type=S['s_objtypes'].ObjectType):
        try:
            tn = tuple(S['pgcommon'].get_backend_name(schema, obj, catenate=False))
            out[tn] = str(obj.get_name(schema))
            for pn, ptr in obj.get_pointers(schema).items(schema):
                try:
                    out[tuple(S['pgcommon'].get_backend_name(schema, ptr, catenate=False))] = \
                        f'{obj.get_name(schema)}.{pn}'
                    info = S['pgtypes'].get_pointer_storage_info(ptr, schema=schema)
                    out[(tn, info.column_name)] = str(pn)
                except Exception:
                    pass
        except Exception:
            pass
    return out


# ----------------------------------------------------------------------
# generator (model-guided: a light model of the schema biases towards commands that apply)

def _strategy():
    from hypothesis import strategies as st

    @st.composite
    def cases(draw):
        def i(lo, hi):
            return draw(st.integers(lo, hi))

        def pick(seq):
            seq = list(seq)
            return seq[i(0, len(seq) - 1)]
        types: dict = {}     # name -> dict(props={name: dict(multi, required, computed)}, links={...}, bases, abstract)
        stmts = []
        n = i(6, 14)
        for _ in range(n):
            live = sorted(types)
            r = i(0, 99)
            if not live or r < 14:
                free = [t for t in TYPES if t not in types]
                if not free:
                    continue
                t = pick(free)
                base = pick(live) if live and i(0, 1) == 0 else None
                body = []
                props, links = {}, {}
                for _k in range(i(0, 2)):
                    p = pick(PROPS)
                    if p in props or (base and p in types[base]['props']):
                        continue
                    multi, req = i(0, 3) == 0, i(0, 3) == 0
                    body.append(f"create {'required ' if req else ''}{'multi ' if multi else ''}property {p} -> "
                                f"{pick(['str', 'int64'])}" + (" { set default := <str>1 }" if False else ''))
                    props[p] = dict(multi=multi, required=req, computed=False)
                if live and i(0, 1):
                    ln = pick(LINKS)
                    if not (base and ln in types[base]['links']):
                        multi = i(0, 1) == 0
                        tgt = pick(live + [t])
                        lp = ' { create property lp0 -> str }' if i(0, 2) == 0 else ''
                        body.append(f"create {'multi ' if multi else ''}link {ln} -> {tgt}{lp}")
                        links[ln] = dict(multi=multi, lps={'lp0'} if lp else set(), computed=False, tgt=tgt)
                abstract = i(0, 5) == 0
                stmts.append(['create-type', f"create {'abstract ' if abstract else ''}type {t}"
                              + (f' extending {base}' if base else '')
                              + (' { ' + '; '.join(body) + ' }' if body else '')])
                types[t] = dict(props=props, links=links, bases=[base] if base else [], abstract=abstract)
                continue
            t = pick(live)
            T = types[t]
            allp = dict(T['props'])
            alll = dict(T['links'])
            def inherited(kind):
                out, todo, seen = {}, list(T['bases']), set()
                while todo:
                    b = todo.pop()
                    if b in seen or b not in types:
                        continue
                    seen.add(b)
                    for n2, v in types[b][kind].items():
                        out.setdefault(n2, v)
                    todo.extend(types[b]['bases'])
                return {n2: v for n2, v in out.items() if n2 not in T[kind]}
            inh_l = inherited('links')
            inh_p = inherited('props')
            with_lp = [ln for ln, L in alll.items() if L.get('lps')]
            # construction over rejection: re-draw the operation while it has nothing to act on
            need = {5: allp, 6: alll, 7: allp, 8: allp, 9: alll, 10: alll, 11: alll, 12: with_lp, 13: allp,
                    15: (allp or alll), 16: len(live) > 1, 17: T['bases'], 19: allp, 20: alll,
                    22: inh_l, 23: inh_p, 24: with_lp, 25: alll, 26: (allp or alll), 27: (allp or alll)}
            for _try in range(4):
                k = i(0, 29)
                if need.get(k, True):
                    break
            if (inh_l or inh_p) and i(0, 3) == 0:
                k = 22 if (inh_l and (not inh_p or i(0, 1))) else 23
            def subtypes_of(x):
                out, todo = [], [x]
                while todo:
                    y = todo.pop()
                    for n2, X in types.items():
                        if y in X['bases'] and n2 not in out:
                            out.append(n2)
                            todo.append(n2)
                return out
            narrow = [(ln, st_) for ln, L in alll.items() if L.get('tgt') in types
                      for st_ in subtypes_of(L['tgt'])]
            if narrow and i(0, 3) == 0:
                # narrow a link to a subtype of its target; the USING expression can be empty
                ln, st_ = pick(narrow)
                stmts.append(['link-set-type', f'alter type {t} alter link {ln} set type {st_} using (.{ln}[is {st_}])'])
                alll[ln]['tgt'] = st_
                continue
            hot = [ln for ln, L in alll.items() if L.get('multi') and L.get('lps')]
            if hot and i(0, 4) == 0:
                # a multi link that carries link properties is narrowed to single
                ln = pick(hot)
                stmts.append(['link-set-single', f'alter type {t} alter link {ln} set single using '
                              f'((select .{ln} limit 1))'])
                alll[ln]['multi'] = False
                continue
            if k <= 2:
                p = pick(PROPS)
                multi, req = i(0, 2) == 0, i(0, 4) == 0
                stmts.append(['add-prop', f"alter type {t} create {'required ' if req else ''}"
                              f"{'multi ' if multi else ''}property {p} -> {pick(['str', 'int64'])}"
                              + (" { set default := <str>'d' }" if req and False else '')])
                T['props'].setdefault(p, dict(multi=multi, required=req, computed=False))
            elif k <= 4:
                ln = pick(LINKS)
                multi = i(0, 1) == 0
                lp = ' { create property lp0 -> str }' if i(0, 1) == 0 else ''
                tgt = pick(live)
                stmts.append(['add-link', f"alter type {t} create {'multi ' if multi else ''}link {ln} -> {tgt}{lp}"])
                T['links'].setdefault(ln, dict(multi=multi, lps={'lp0'} if lp else set(), computed=False, tgt=tgt))
            elif k == 5 and allp:
                p = pick(allp)
                stmts.append(['drop-prop', f'alter type {t} drop property {p}'])
                T['props'].pop(p, None)
            elif k == 6 and alll:
                ln = pick(alll)
                stmts.append(['drop-link', f'alter type {t} drop link {ln}'])
                T['links'].pop(ln, None)
            elif k == 7 and allp:
                p = pick(allp)
                stmts.append(['prop-set-multi', f'alter type {t} alter property {p} set multi'])
                allp[p]['multi'] = True
            elif k == 8 and allp:
                p = pick(allp)
                stmts.append(['prop-set-single', f'alter type {t} alter property {p} set single using '
                              f'((select .{p} limit 1))'])
                allp[p]['multi'] = False
            elif k == 9 and alll:
                ln = pick(alll)
                stmts.append(['link-set-multi', f'alter type {t} alter link {ln} set multi'])
                alll[ln]['multi'] = True
            elif k == 10 and alll:
                ln = pick(alll)
                stmts.append(['link-set-single', f'alter type {t} alter link {ln} set single using '
                              f'((select .{ln} limit 1))'])
            elif k == 11 and alll:
                ln = pick(alll)
                stmts.append(['add-linkprop', f'alter type {t} alter link {ln} create property lp{i(0, 1)} -> str'])
                alll[ln].setdefault('lps', set()).add('lp')
            elif k == 12 and alll:
                ln = pick(alll)
                stmts.append(['drop-linkprop', f'alter type {t} alter link {ln} drop property lp{i(0, 1)}'])
            elif k == 13 and allp:
                p = pick(allp)
                if i(0, 1):
                    stmts.append(['prop-set-required', f"alter type {t} alter property {p} set required using "
                                  f"(<{pick(['str', 'int64'])}>'1')"])
                else:
                    stmts.append(['prop-set-optional', f'alter type {t} alter property {p} set optional'])
            elif k == 14:
                free = [x for x in TYPES if x not in types]
                if free:
                    nt = pick(free)
                    stmts.append(['rename-type', f'alter type {t} rename to {nt}'])
                    types[nt] = types.pop(t)
                    for X in types.values():
                        X['bases'] = [nt if b == t else b for b in X['bases']]
            elif k == 15 and (allp or alll):
                if allp and (not alll or i(0, 1)):
                    p = pick(allp)
                    np_ = pick(PROPS)
                    stmts.append(['rename-prop', f'alter type {t} alter property {p} rename to {np_}'])
                    if np_ not in T['props'] and p in T['props']:
                        T['props'][np_] = T['props'].pop(p)
                else:
                    ln = pick(alll)
                    nl = pick(LINKS)
                    stmts.append(['rename-link', f'alter type {t} alter link {ln} rename to {nl}'])
                    if nl not in T['links'] and ln in T['links']:
                        T['links'][nl] = T['links'].pop(ln)
            elif k == 16 and len(live) > 1:
                b = pick([x for x in live if x != t])
                stmts.append(['add-base', f'alter type {t} extending {b} last'])
                T['bases'].append(b)
            elif k == 17 and T['bases']:
                b = pick(T['bases'])
                stmts.append(['drop-base', f'alter type {t} drop extending {b}'])
                T['bases'].remove(b)
            elif k == 18:
                if T['abstract']:
                    stmts.append(['reset-abstract', f'alter type {t} reset abstract'])
                else:
                    stmts.append(['set-abstract', f'alter type {t} set abstract'])
                T['abstract'] = not T['abstract']
            elif k == 19 and allp:
                p = pick(allp)
                if i(0, 1):
                    expr = pick(["'c'", "'c'", "{'x', 'y'}", "<str>{}", "(select {'a', 'b'} limit 1)"])
                    stmts.append(['prop-to-computed', f"alter type {t} alter property {p} using ({expr})"])
                else:
                    stmts.append(['prop-to-stored', f'alter type {t} alter property {p} reset expression'])
            elif k == 20 and alll:
                ln = pick(alll)
                if i(0, 1):
                    tgt = pick(live)
                    expr = pick([f'(select {tgt})', f'(select {tgt} limit 1)', f'(select detached {tgt} filter false)'])
                    stmts.append(['link-to-computed', f'alter type {t} alter link {ln} using ({expr})'])
                else:
                    stmts.append(['link-to-stored', f'alter type {t} alter link {ln} reset expression'])
            elif k == 22 and inh_l:
                # operations of a subtype on a link it only inherits (its own link table changes)
                ln = pick(inh_l)
                c = i(0, 3)
                if c == 0:
                    stmts.append(['inh-link-add-linkprop', f'alter type {t} alter link {ln} create property lp{i(0, 1)} -> str'])
                elif c == 1:
                    subs = subtypes_of(inh_l[ln].get('tgt')) if inh_l[ln].get('tgt') in types else []
                    if subs:
                        st_ = pick(subs)
                        stmts.append(['inh-link-set-type', f'alter type {t} alter link {ln} set type {st_} using (.{ln}[is {st_}])'])
                    else:
                        stmts.append(['inh-link-constraint', f'alter type {t} alter link {ln} create constraint exclusive'])
                elif c == 2:
                    stmts.append(['inh-link-drop-owned', f'alter type {t} alter link {ln} drop owned'])
                else:
                    stmts.append(['inh-link-set-required', f'alter type {t} alter link {ln} set required using '
                                  f'((select {inh_l[ln].get("tgt", t)} limit 1))'])
            elif k == 23 and inh_p:
                p = pick(inh_p)
                c = i(0, 2)
                if c == 0:
                    stmts.append(['inh-prop-set-required', f"alter type {t} alter property {p} set required using (<str>'1')"])
                elif c == 1:
                    stmts.append(['inh-prop-constraint', f'alter type {t} alter property {p} create constraint exclusive'])
                else:
                    stmts.append(['inh-prop-drop-owned', f'alter type {t} alter property {p} drop owned'])
            elif k == 24 and with_lp:
                ln = pick(with_lp)
                if i(0, 1):
                    stmts.append(['linkprop-set-type', f'alter type {t} alter link {ln} alter property lp0 set type int64 '
                                  f'using (<int64>@lp0)'])
                else:
                    stmts.append(['rename-linkprop', f'alter type {t} alter link {ln} alter property lp0 rename to lp1'])
            elif k == 25 and alll:
                ln = pick(alll)
                if i(0, 1):
                    stmts.append(['link-set-required', f'alter type {t} alter link {ln} set required using '
                                  f'((select {alll[ln].get("tgt", t)} limit 1))'])
                else:
                    stmts.append(['link-set-optional', f'alter type {t} alter link {ln} set optional'])
            elif k in (26, 27) and (allp or alll):
                # several storage changes in one ALTER TYPE block
                subs = []
                if allp:
                    p = pick(allp)
                    subs.append(pick([f'drop property {p}', f'alter property {p} set multi',
                                      f'alter property {p} rename to {pick(PROPS)}',
                                      f"alter property {p} using ('c')"]))
                if alll:
                    ln = pick(alll)
                    subs.append(pick([f'drop link {ln}', f'alter link {ln} set multi',
                                      f'alter link {ln} create property lp{i(0, 1)} -> str',
                                      f'alter link {ln} rename to {pick(LINKS)}',
                                      f'alter link {ln} set single using ((select .{ln} limit 1))']))
                subs.append(f'create {pick(["", "multi "])}property {pick(PROPS)} -> str')
                if i(0, 1):
                    subs.reverse()
                stmts.append(['alter-block', f'alter type {t} {{ ' + '; '.join(subs) + ' }'])
            elif k == 21:
                stmts.append(['drop-type', f'drop type {t}'])
                types.pop(t)
                for X in types.values():
                    X['bases'] = [b for b in X['bases'] if b != t]
            elif alll and i(0, 2) == 0:
                # retarget a link, with and without a USING expression that can be empty
                ln = pick(alll)
                tgt = pick(live)
                if i(0, 2):
                    stmts.append(['link-set-type', f'alter type {t} alter link {ln} set type {tgt} using (.{ln}[is {tgt}])'])
                else:
                    stmts.append(['link-set-type', f'alter type {t} alter link {ln} set type {tgt}'])
            elif allp and i(0, 2) == 0:
                p = pick(allp)
                ty = pick(['str', 'int64'])
                stmts.append(['prop-set-type', f'alter type {t} alter property {p} set type {ty} using (<{ty}>.{p})'])
            else:
                p = pick(PROPS)
                stmts.append(['add-computed', f'alter type {t} create property c{p} := (1)'])
        return dict(stmts=stmts)
    return cases()


STORAGE_CHANGES = {'alter-block', 'inh-link-add-linkprop', 'inh-link-set-type', 'inh-link-drop-owned',
                   'inh-prop-drop-owned', 'linkprop-set-type', 'rename-linkprop', 'link-set-type', 'prop-set-type', 'prop-set-multi', 'prop-set-single', 'link-set-multi', 'link-set-single', 'add-linkprop',
                   'drop-linkprop', 'prop-to-computed', 'prop-to-stored', 'link-to-computed', 'link-to-stored',
                   'add-base', 'drop-base', 'drop-type', 'drop-prop', 'drop-link', 'set-abstract', 'reset-abstract'}


def _run(rec, case):
    viol, info = run_case(case)
    if info['status'] != 'ok':
        rec.evaluations += 1
        rec.skip(info['status'] + ':' + info.get('why', '')[:50])
        return
    kinds = info['kinds']
    nontrivial = len(kinds) >= 4 and bool(set(kinds) & STORAGE_CHANGES)
    rec.case(info['accepted'], nontrivial=nontrivial, classes=sorted({'accepted:' + k for k in kinds}),
             sample={'history': info['accepted'][:10]})
    rec.extra['statements_accepted'] = rec.extra.get('statements_accepted', 0) + len(kinds)
    rec.extra['statements_rejected'] = rec.extra.get('statements_rejected', 0) + info['rejected']
    for sig, detail in viol[:1]:
        rec.violation(sig, case, detail)


def shard(rec, idx, nshards, seed, tier):
    preload()
    n = 10 if tier == 'quick' else 250
    core.run_given(_strategy(), lambda c: _run(rec, c), seed=seed * 1000 + idx, max_examples=n)


def replay(case):
    preload()
    viol, _ = run_case(case)
    return '; '.join(f'{s}: {d}' for s, d in viol[:2]) or None


def shrink(case, sig):
    def fails(c):
        v, _ = run_case(c)
        return any(s == sig for s, _ in v)

    def simplify(c):
        for sub in core.list_simplify(c['stmts']):
            yield dict(c, stmts=sub)
    return core.greedy_shrink(case, fails, simplify, budget_s=120)
