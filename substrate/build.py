#!/usr/bin/env python3
"""Build the native part of the substrate from the *current* working tree.

* unpacks the committed .crate archives into a cargo directory source,
* renders a cargo workspace whose `edgeql-parser` member compiles the
  repository's unmodified Rust sources (path = <repo>/edb/edgeql-parser/src),
* runs `cargo build --offline --release` (incremental: a changed .rs file
  under the repository is recompiled, nothing else).

Everything is written under /verif/.build/<key>/ (git-ignored, never /tmp).
Prints the path of the resulting shared library.
"""
from __future__ import annotations

import fcntl
import hashlib
import json
import os
import pathlib
import shutil
import subprocess
import sys
import tarfile

HERE = pathlib.Path(__file__).resolve().parent
VERIF = HERE.parent
BUILD_ROOT = VERIF / '.build'
LIBNAME = 'libverif_edgeql_ffi.so'


def repo_root() -> pathlib.Path:
    return pathlib.Path(os.environ.get('VERIF_REPO', '/repo')).resolve()


def build_key(repo: pathlib.Path) -> str:
    if str(repo) == '/repo':
        return 'main'
    return 'alt-' + hashlib.sha256(str(repo).encode()).hexdigest()[:12]


def _ensure_vendor(vendor: pathlib.Path) -> None:
    stamp = vendor / '.complete'
    crates = sorted((HERE / 'native' / 'crates').glob('*.crate'))
    want = ','.join(c.name for c in crates)
    if stamp.exists() and stamp.read_text() == want:
        return
    if vendor.exists():
        shutil.rmtree(vendor)
    vendor.mkdir(parents=True)
    for c in crates:
        with tarfile.open(c, 'r:gz') as tf:
            tf.extractall(vendor, filter='data')
        d = vendor / c.name[:-len('.crate')]
        sha = hashlib.sha256(c.read_bytes()).hexdigest()
        (d / '.cargo-checksum.json').write_text(
            json.dumps({'files': {}, 'package': sha}))
    stamp.write_text(want)


def _sync_tree(src: pathlib.Path, dst: pathlib.Path) -> None:
    """Copy src into dst, rewriting only files whose content differs (keeps
    cargo's mtime-based fingerprints stable)."""
    for p in src.rglob('*'):
        rel = p.relative_to(src)
        q = dst / rel
        if p.is_dir():
            q.mkdir(parents=True, exist_ok=True)
        else:
            data = p.read_bytes()
            if not q.exists() or q.read_bytes() != data:
                q.parent.mkdir(parents=True, exist_ok=True)
                q.write_bytes(data)


def _write_if_changed(p: pathlib.Path, text: str) -> None:
    if not p.exists() or p.read_text() != text:
        p.parent.mkdir(parents=True, exist_ok=True)
        p.write_text(text)


def build(quiet: bool = True) -> pathlib.Path:
    repo = repo_root()
    key = build_key(repo)
    root = BUILD_ROOT / key
    root.mkdir(parents=True, exist_ok=True)
    lock = open(BUILD_ROOT / f'{key}.lock', 'w')
    fcntl.flock(lock, fcntl.LOCK_EX)
    try:
        vendor = BUILD_ROOT / 'vendor'
        vlock = open(BUILD_ROOT / 'vendor.lock', 'w')
        fcntl.flock(vlock, fcntl.LOCK_EX)
        try:
            _ensure_vendor(vendor)
        finally:
            fcntl.flock(vlock, fcntl.LOCK_UN)
            vlock.close()
        ws = root / 'ws'
        _sync_tree(HERE / 'native' / 'ffi', ws / 'ffi')
        _sync_tree(HERE / 'native' / 'shims', ws / 'shims')
        for f in ('Cargo.toml', 'Cargo.lock'):
            _write_if_changed(ws / f, (HERE / 'native' / f).read_text())
        tmpl = (HERE / 'native' / 'parser.Cargo.toml.in').read_text()
        _write_if_changed(
            ws / 'parser' / 'Cargo.toml',
            tmpl.replace('@REPO@', str(repo)))
        _write_if_changed(
            ws / '.cargo' / 'config.toml',
            '[source.crates-io]\nreplace-with = "vendored"\n'
            f'[source.vendored]\ndirectory = "{vendor}"\n'
            '[net]\noffline = true\n')
        env = dict(os.environ)
        env['CARGO_NET_OFFLINE'] = 'true'
        env['CARGO_TARGET_DIR'] = str(root / 'target')
        env.pop('RUSTUP_TOOLCHAIN', None)
        cmd = ['cargo', 'build', '--offline', '--release', '--locked',
               '-p', 'verif-edgeql-ffi']
        r = subprocess.run(
            cmd, cwd=ws, env=env, stdout=subprocess.PIPE,
            stderr=subprocess.STDOUT, text=True)
        if r.returncode != 0:
            sys.stderr.write(r.stdout)
            raise RuntimeError('cargo build of the parser substrate failed')
        if not quiet:
            sys.stderr.write(r.stdout)
        lib = root / 'target' / 'release' / LIBNAME
        if not lib.exists():
            raise RuntimeError(f'{lib} was not produced')
        return lib
    finally:
        fcntl.flock(lock, fcntl.LOCK_UN)
        lock.close()


if __name__ == '__main__':
    print(build(quiet='-v' not in sys.argv))
