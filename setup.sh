#!/bin/bash
# Run once after a fresh restore (offline).  Builds the substrate from files on disk only.
set -e
cd "$(dirname "$0")"
export CARGO_NET_OFFLINE=true PIP_NO_INDEX=1
if ! /venv/bin/python -c "import hypothesis" 2>/dev/null; then
  /venv/bin/pip install --no-index --find-links /opt/veriftools/wheels --target /verif/.deps hypothesis
fi
# coverage-guided fuzzing stage of C01 (thorough tier); optional: the stage is skipped if missing
if ! PYTHONPATH=/verif/.deps /venv/bin/python -c "import atheris" 2>/dev/null; then
  /venv/bin/pip install --no-index --find-links /opt/veriftools/wheels --target /verif/.deps atheris >/dev/null 2>&1 || true
fi
/venv/bin/python substrate/build.py
PYTHONHASHSEED=0 PYTHONPATH=/verif/.deps /venv/bin/python -c "
from vp_harness import env
env.load_std()
print('substrate ok; std schema cached under', env.CACHE / env.tree_hash())
"
