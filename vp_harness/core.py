"""Common machinery: recorder (buckets, classes, samples), Hypothesis driver,
sharding, known findings, replay files, evidence."""
from __future__ import annotations

import collections
import fnmatch
import hashlib
import json
import multiprocessing
import os
import pathlib
import sys
import time
import traceback
from typing import Any, Callable, Iterable, Optional

VERIF = pathlib.Path(__file__).resolve().parent.parent
# (overridable so that sensitivity sweeps against mutated scratch trees do not touch the
# committed evidence)
EVIDENCE = pathlib.Path(os.environ.get('VERIF_EVIDENCE_DIR') or (VERIF / 'evidence'))
REPLAYS = pathlib.Path(os.environ.get('VERIF_REPLAYS_DIR') or (VERIF / 'replays'))
KNOWN = VERIF / 'known_findings.json'

MAX_SAMPLES = 12


class HarnessError(Exception):
    """Anything that is the harness' (or substrate's) fault: exit 2."""


def canon(obj: Any) -> str:
    return json.dumps(obj, sort_keys=True, ensure_ascii=True, default=repr)


def case_hash(obj: Any) -> str:
    return hashlib.sha1(canon(obj).encode()).hexdigest()[:16]


def seed_env() -> int:
    try:
        return int(os.environ.get('VERIF_SEED', '1'))
    except ValueError:
        return 1


class Recorder:
    """Collects what a shard explored.  Never raises on a property failure:
    failures go to buckets keyed by a root-cause signature so the search goes
    on past the first defect (collect-then-shrink)."""

    def __init__(self) -> None:
        self.evaluations = 0
        self.nontrivial: set[str] = set()
        self.classes: collections.Counter[str] = collections.Counter()
        self.skipped: collections.Counter[str] = collections.Counter()
        self.samples: list[Any] = []
        self.buckets: dict[str, dict[str, Any]] = {}
        self.extra: dict[str, Any] = {}
        #: cases that are distinct *by construction* (exhaustive enumeration
        #: of a finite space by index) and non-trivial: counted, not hashed
        self.nontrivial_enum = 0

    # -- recording -----------------------------------------------------
    def case(self, case: Any = None, *, nontrivial: bool = False,
             classes: Iterable[str] = (), key: Any = None,
             sample: Any = None) -> None:
        self.evaluations += 1
        for c in classes:
            self.classes[c] += 1
        if nontrivial:
            h = case_hash(key if key is not None else case)
            if h not in self.nontrivial:
                self.nontrivial.add(h)
                if len(self.samples) < MAX_SAMPLES:
                    self.samples.append(sample if sample is not None else case)

    def skip(self, reason: str) -> None:
        self.skipped[reason] += 1

    def violation(self, sig: str, case: Any, detail: str) -> None:
        b = self.buckets.get(sig)
        size = len(canon(case))
        if b is None:
            self.buckets[sig] = dict(case=case, detail=detail, count=1,
                                     size=size)
        else:
            b['count'] += 1
            if size < b['size']:
                b.update(case=case, detail=detail, size=size)

    # -- (de)serialisation for crossing the process boundary ------------
    def to_dict(self) -> dict[str, Any]:
        return dict(
            evaluations=self.evaluations,
            nontrivial=sorted(self.nontrivial),
            nontrivial_enum=self.nontrivial_enum,
            classes=dict(self.classes),
            skipped=dict(self.skipped),
            samples=self.samples,
            buckets=self.buckets,
            extra=self.extra,
        )

    def merge_dict(self, d: dict[str, Any]) -> None:
        self.evaluations += d['evaluations']
        self.nontrivial.update(d['nontrivial'])
        self.nontrivial_enum += d.get('nontrivial_enum', 0)
        self.classes.update(d['classes'])
        self.skipped.update(d['skipped'])
        for s in d['samples']:
            if len(self.samples) < MAX_SAMPLES:
                self.samples.append(s)
        for sig, b in d['buckets'].items():
            mine = self.buckets.get(sig)
            if mine is None:
                self.buckets[sig] = dict(b)
            else:
                mine['count'] += b['count']
                if b['size'] < mine['size']:
                    mine.update(case=b['case'], detail=b['detail'],
                                size=b['size'])
        for k, v in d.get('extra', {}).items():
            if isinstance(v, (int, float)) and isinstance(
                    self.extra.get(k, 0), (int, float)):
                self.extra[k] = self.extra.get(k, 0) + v
            elif isinstance(v, list):
                self.extra.setdefault(k, [])
                self.extra[k] = (self.extra[k] + v)[:50]
            elif isinstance(v, dict):
                cur = self.extra.setdefault(k, {})
                for kk, vv in v.items():
                    if isinstance(vv, (int, float)):
                        cur[kk] = cur.get(kk, 0) + vv
                    else:
                        cur.setdefault(kk, vv)
            else:
                self.extra.setdefault(k, v)


# ----------------------------------------------------------------------
# Hypothesis driver

def run_given(strategy, body: Callable[[Any], None], *, seed: int,
              max_examples: int) -> None:
    """Run `body(case)` over `max_examples` generated cases.  `body` must not
    raise for property failures (it records them); an exception escaping it is
    a harness error."""
    import warnings
    import hypothesis
    from hypothesis import HealthCheck, Phase, given, settings
    from hypothesis.errors import HypothesisWarning
    warnings.filterwarnings('ignore', category=HypothesisWarning)

    @hypothesis.seed(seed)
    @settings(max_examples=max_examples, database=None, deadline=None,
              derandomize=False, report_multiple_bugs=False,
              phases=[Phase.generate],
              suppress_health_check=list(HealthCheck))
    @given(strategy)
    def _t(case):
        body(case)

    _t()


def run_machine(machine_cls, *, seed: int, max_examples: int,
                step_count: int) -> None:
    import hypothesis
    from hypothesis import HealthCheck, Phase, settings
    from hypothesis.stateful import run_state_machine_as_test

    run_state_machine_as_test(
        hypothesis.seed(seed)(machine_cls),
        settings=settings(
            max_examples=max_examples, stateful_step_count=step_count,
            database=None, deadline=None, derandomize=False,
            report_multiple_bugs=False, phases=[Phase.generate],
            suppress_health_check=list(HealthCheck)))


# ----------------------------------------------------------------------
# generic greedy shrinker over JSON-like cases

def greedy_shrink(case: Any, still_fails: Callable[[Any], bool],
                  simplify: Callable[[Any], Iterable[Any]],
                  budget_s: float = 60.0, max_steps: int = 2000) -> Any:
    t0 = time.time()
    steps = 0
    improved = True
    while improved and time.time() - t0 < budget_s and steps < max_steps:
        improved = False
        for cand in simplify(case):
            steps += 1
            if time.time() - t0 > budget_s or steps >= max_steps:
                break
            try:
                if len(canon(cand)) < len(canon(case)) and still_fails(cand):
                    case = cand
                    improved = True
                    break
            except HarnessError:
                continue
    return case


def list_simplify(seq: list) -> Iterable[list]:
    """ddmin-style candidates for a list: drop halves, quarters, single items."""
    n = len(seq)
    chunk = n // 2
    while chunk >= 1:
        for i in range(0, n, chunk):
            yield seq[:i] + seq[i + chunk:]
        chunk //= 2


# ----------------------------------------------------------------------
# known findings

def load_known(prop_id: str) -> list[dict[str, Any]]:
    if not KNOWN.exists():
        return []
    data = json.loads(KNOWN.read_text())
    return [e for e in data.get('findings', []) if e.get('property') == prop_id]


def sig_matches(sig: str, patterns: Iterable[str]) -> bool:
    return any(fnmatch.fnmatchcase(sig, p) for p in patterns)


# ----------------------------------------------------------------------
# runner

def _shard_entry(args):
    mod_name, idx, nshards, seed, tier = args
    import importlib
    mod = importlib.import_module(mod_name)
    rec = Recorder()
    try:
        if hasattr(mod, 'preload'):
            mod.preload()
        mod.shard(rec, idx, nshards, seed, tier)
    except Exception:
        return dict(error=traceback.format_exc(), partial=rec.to_dict())
    return rec.to_dict()


def run_check(mod, tier: str, replay: Optional[str]) -> int:
    prop = mod.ID
    t0 = time.time()
    seed = seed_env()
    if replay:
        case = json.loads(pathlib.Path(replay).read_text())
        if hasattr(mod, 'preload'):
            mod.preload()
        detail = mod.replay(case.get('case', case))
        if detail:
            print(f'VIOLATION property={prop} replay={replay}')
            print('  ' + str(detail)[:2000])
            return 1
        print(f'replay passes: property={prop} replay={replay}')
        return 0

    if hasattr(mod, 'preload'):
        mod.preload()

    violations: list[tuple[str, str, str]] = []   # (sig, replay path, detail)
    known_lines: list[str] = []
    known_entries: list[dict] = []
    known_hit: set[str] = set()
    known_sigs: list[str] = []
    # 1. replay tier: known findings + committed regression replays
    for e in load_known(prop):
        status = e.get('status', 'known')
        case = e.get('case')
        if case is None and e.get('replay'):
            case = json.loads((VERIF / e['replay']).read_text())['case']
        detail = mod.replay(case) if case is not None else None
        if status == 'known':
            known_sigs.extend(e.get('signatures', []))
            known_entries.append(e)
            if detail:
                known_hit.add(e['id'])
        elif status == 'fixed':
            if detail:
                path = _write_replay(prop, 'regression-' + e['id'], case,
                                     detail, sig='fixed:' + e['id'])
                violations.append(('fixed:' + e['id'], path, detail))
    regress_n = 0
    rdir = VERIF / 'replays' / prop / 'regress'
    if rdir.is_dir():
        for f in sorted(rdir.glob('*.json')):
            c = json.loads(f.read_text())
            detail = mod.replay(c.get('case', c))
            regress_n += 1
            if detail:
                sig = c.get('sig', f.stem)
                if not sig_matches(sig, known_sigs):
                    violations.append((sig, str(f), detail))

    # 2. search, sharded
    nshards = int(os.environ.get('VERIF_SHARDS', getattr(mod, 'SHARDS', 16)))
    total = Recorder()
    args = [(mod.__name__, i, nshards, seed, tier) for i in range(nshards)]
    if nshards == 1:
        results = [_shard_entry(args[0])]
    else:
        # fresh interpreters, not forks: forked children share the parent's
        # anon_vma chains and page tables, and this workload (CPython data-stack
        # chunks are mmap'ed/munmap'ed constantly by the deeply recursive
        # compilers) then serialises in the kernel; measured 7x slower.
        ctx = multiprocessing.get_context('spawn')
        with ctx.Pool(min(nshards, os.cpu_count() or 1)) as pool:
            results = pool.map(_shard_entry, args, chunksize=1)
    for r in results:
        if 'error' in r:
            sys.stderr.write(r['error'])
            raise HarnessError('shard failed')
        total.merge_dict(r)

    # 3. violations: shrink, write replay
    excluded = 0
    seen_final: set[str] = set()
    for sig, b in sorted(total.buckets.items()):
        if sig_matches(sig, known_sigs):
            excluded += b['count']
            for e in known_entries:
                if sig_matches(sig, e.get('signatures', [])):
                    known_hit.add(e['id'])
            continue
        case, detail = b['case'], b['detail']
        if hasattr(mod, 'shrink'):
            try:
                case2 = mod.shrink(case, sig)
                d2 = mod.replay(case2)
                if d2:
                    case, detail = case2, d2
            except Exception:
                pass
        if hasattr(mod, 'final_sig'):
            try:
                sig = mod.final_sig(case, detail) or sig
            except Exception:
                pass
        if sig in seen_final:
            continue
        seen_final.add(sig)
        if sig_matches(sig, known_sigs):
            excluded += b['count']
            for e in known_entries:
                if sig_matches(sig, e.get('signatures', [])):
                    known_hit.add(e['id'])
            continue
        path = _write_replay(prop, case_hash(sig), case, detail, sig=sig)
        violations.append((sig, path, detail))

    for e in known_entries:
        if e['id'] in known_hit:
            known_lines.append(f"KNOWN-FINDING: property={prop} {e['what']}")

    # 4. evidence
    wall = time.time() - t0
    cov = dict(
        evaluations=total.evaluations,
        distinct_nontrivial=len(total.nontrivial) + total.nontrivial_enum,
        rule=getattr(mod, 'RULE', ''),
        samples=total.samples[:MAX_SAMPLES],
        classes=dict(sorted(total.classes.items())),
        skipped=dict(sorted(total.skipped.items())),
        shards=nshards,
        replayed_regressions=regress_n,
        known_findings_reported=len(known_lines),
        hits_on_known_findings=excluded,
    )
    cov.update(total.extra)
    if hasattr(mod, 'finish'):
        mod.finish(cov, tier)
    ev = dict(
        property_id=prop, tier=tier, seed=seed,
        level=getattr(mod, 'LEVEL', 'exploration'),
        coverage=cov,
        assumptions=list(getattr(mod, 'ASSUMPTIONS', [])),
        wall_s=round(wall, 2),
        violations=len(violations),
    )
    EVIDENCE.mkdir(exist_ok=True)
    (EVIDENCE / f'{prop}.json').write_text(
        json.dumps(ev, indent=1, ensure_ascii=True, default=repr) + '\n')

    for line in known_lines:
        print(line)
    for sig, path, detail in violations:
        print(f'VIOLATION property={prop} replay={path}')
        print(f'  signature: {sig}')
        print('  ' + str(detail)[:1500].replace('\n', '\n  '))
    print(f'{prop} {tier}: evaluations={total.evaluations} '
          f'distinct_nontrivial={len(total.nontrivial) + total.nontrivial_enum} '
          f'violations={len(violations)} known={len(known_lines)} '
          f'wall={wall:.1f}s')
    minimum = getattr(mod, 'MIN_EVALS', {}).get(tier, 1)
    if not violations and total.evaluations < minimum:
        raise HarnessError(
            f'inconclusive: only {total.evaluations} cases (< {minimum})')
    return 1 if violations else 0


def _write_replay(prop: str, name: str, case: Any, detail: str,
                  sig: str) -> str:
    d = REPLAYS / prop
    d.mkdir(parents=True, exist_ok=True)
    p = d / f'{name}.json'
    p.write_text(json.dumps(
        dict(property=prop, sig=sig, detail=str(detail)[:4000], case=case),
        indent=1, ensure_ascii=True, default=repr) + '\n')
    return str(p)
