#!/usr/bin/env python3
"""Regenerate the per-property finding lists of DESIGN.md section 10 from known_findings.json
(between the markers <!-- findings:begin --> and <!-- findings:end -->)."""
import json
import re
import pathlib

V = pathlib.Path(__file__).resolve().parent.parent
TITLES = {
    'C01': 'print / re-parse', 'C02': 'computed migrations', 'C03': 'DESCRIBE round trip',
    'C04': 'referential integrity', 'C05': 'backend tables', 'C06': 'cardinality / multiplicity',
    'C07': 'access policies', 'C08': 'capabilities', 'C09': 'transaction state', 'C10': 'migration chains',
    'C11': 'SDL order', 'C12': 'inferred types', 'C13': 'SQL scoping / determinism', 'C14': 'type descriptors',
    'C15': 'pool safety', 'C16': 'pool liveness', 'C17': 'compiler pool', 'C18': 'quoting',
    'C19': 'configuration', 'C20': 'dependency ordering'}


def main():
    d = json.loads((V / 'known_findings.json').read_text())
    lst = d['findings'] if isinstance(d, dict) else d
    out = []
    for P in sorted(TITLES):
        mine = [e for e in lst if e['property'] == P]
        if not mine:
            continue
        out.append(f'### {P} — {TITLES[P]}\n')
        for status, head in (('fixed', '*Repaired (fix: commits)*:'), ('known', '*Known findings (not repaired)*:')):
            es = [e for e in mine if e['status'] == status]
            if not es:
                continue
            out.append(head + '\n')
            for e in es:
                what = ' '.join(str(e.get('what', '')).split())
                if len(what) > 420:
                    what = what[:417] + '...'
                out.append(f"* `{e['id']}` — {what}")
            out.append('')
        out.append('')
    body = '\n'.join(out)
    p = V / 'DESIGN.md'
    s = p.read_text()
    s2, n = re.subn(r'(<!-- findings:begin -->\n).*?(<!-- findings:end -->)', lambda m: m.group(1) + body + m.group(2),
                    s, flags=re.S)
    if n != 1:
        raise SystemExit('markers not found')
    p.write_text(s2)
    nf = sum(1 for e in lst if e['status'] == 'fixed')
    nk = sum(1 for e in lst if e['status'] == 'known')
    print(f'fixed entries {nf}, known entries {nk}')


if __name__ == '__main__':
    main()
