#!/usr/bin/env python3
"""Regenerate MANIFEST.json from tools/manifest_src.py (keeps it valid at all times)."""
import json, pathlib, sys
V = pathlib.Path(__file__).resolve().parent.parent
sys.path.insert(0, str(V / 'tools'))
import manifest_src as S
props = [json.loads(l)['id'] for l in open(V / 'properties.jsonl')]
checks = []
for pid in props:
    c = S.CHECKS.get(pid)
    if not c:
        continue
    checks.append(dict(
        property_id=pid,
        quick_cmd=f'./check {pid} --tier quick',
        thorough_cmd=f'./check {pid} --tier thorough',
        evidence_file=f'/verif/evidence/{pid}.json',
        replay_cmd_template=f'./check {pid} --replay {{path}}',
        engine='vp_harness',
        level_claimed=dict(category=c.get('category', 'exploration'), text=c['text'], design_ref=c['design_ref']),
        level_note=c['note'],
        technique=c['technique'],
    ))
na = [dict(property_id=p, reason=S.NOT_APPLICABLE.get(p, 'check not built yet in this session (see DESIGN.md section 2 for the planned PBT design)'))
      for p in props if p not in S.CHECKS]
m = dict(
    version=1,
    setup_cmd=S.SETUP,
    hooks=S.HOOKS,
    engines=[dict(name='vp_harness', path='/verif/vp_harness', serves_properties=[c['property_id'] for c in checks],
                  kind_free_text='property-based testing (Hypothesis, stateful machines, exhaustive small-scope enumeration) over the repository code running on an offline substrate (real Rust lexer/parser via FFI)')],
    checks=checks,
    notes=S.NOTES,
    not_applicable=na,
)
(V / 'MANIFEST.json').write_text(json.dumps(m, indent=1) + '\n')
print('checks:', [c['property_id'] for c in checks], 'not_applicable:', [n['property_id'] for n in na])
