"""Independent decoder for Gel/EdgeDB type descriptors, protocol >= 2.0, written from
docs/reference/reference/protocol/typedesc.rst (not from sertypes.py).

decode(data) -> list of blocks; tree(blocks, idx) -> canonical nested structure:
  ('scalar', name) | ('enum', name, [labels]) | ('array', T) | ('tuple', [T])
  | ('namedtuple', [(name, T)]) | ('range', T) | ('multirange', T) | ('set', T)
  | ('objtype', name) | ('compound', op, [T])
  | ('shape', objtype-tree or None, [(name, flags, cardinality, T, source)])
  | ('input', [(name, cardinality, T)])
"""
from __future__ import annotations

import struct
import uuid

CARD = {0x6e: 'NO_RESULT', 0x6f: 'AT_MOST_ONE', 0x41: 'ONE', 0x6d: 'MANY', 0x4d: 'AT_LEAST_ONE'}


class DecodeError(Exception):
    pass


class R:
    def __init__(self, b):
        self.b = b
        self.i = 0

    def take(self, n):
        if self.i + n > len(self.b):
            raise DecodeError(f'truncated at {self.i}+{n} of {len(self.b)}')
        v = self.b[self.i:self.i + n]
        self.i += n
        return v

    def u8(self):
        return self.take(1)[0]

    def u16(self):
        return struct.unpack('>H', self.take(2))[0]

    def u32(self):
        return struct.unpack('>I', self.take(4))[0]

    def i32(self):
        return struct.unpack('>i', self.take(4))[0]

    def uuid(self):
        return uuid.UUID(bytes=bytes(self.take(16)))

    def string(self):
        n = self.u32()
        return bytes(self.take(n)).decode('utf-8')

    def boolean(self):
        v = self.u8()
        if v not in (0, 1):
            raise DecodeError(f'bool byte {v}')
        return bool(v)

    def eof(self):
        return self.i >= len(self.b)


def _ancestors(r):
    return [r.u16() for _ in range(r.u16())]


def decode(data: bytes):
    """-> (blocks, annotations).  Every block is a dict with tag, id (if any), raw bytes."""
    r = R(bytes(data))
    blocks = []
    annos = []
    while not r.eof():
        ln = r.u32()
        start = r.i
        body = R(r.take(ln))
        tag = body.u8()
        b = dict(tag=tag, raw=bytes(r.b[start:start + ln]))
        if tag == 0:
            b.update(kind='set', id=body.uuid(), type=body.u16())
        elif tag == 1:
            b.update(kind='shape', id=body.uuid(), ephemeral=body.boolean(), type=body.u16())
            els = []
            for _ in range(body.u16()):
                flags = body.u32()
                card = body.u8()
                name = body.string()
                t = body.u16()
                src = body.u16()
                els.append(dict(flags=flags, card=card, name=name, type=t, source=src))
            b['elements'] = els
        elif tag == 3:
            b.update(kind='scalar', id=body.uuid(), name=body.string(), schema_defined=body.boolean(),
                     ancestors=_ancestors(body))
        elif tag == 4:
            b.update(kind='tuple', id=body.uuid(), name=body.string(), schema_defined=body.boolean(),
                     ancestors=_ancestors(body))
            b['elements'] = [body.u16() for _ in range(body.u16())]
        elif tag == 5:
            b.update(kind='namedtuple', id=body.uuid(), name=body.string(), schema_defined=body.boolean(),
                     ancestors=_ancestors(body))
            els = []
            for _ in range(body.u16()):
                nm = body.string()
                els.append((nm, body.u16()))
            b['elements'] = els
        elif tag == 6:
            b.update(kind='array', id=body.uuid(), name=body.string(), schema_defined=body.boolean(),
                     ancestors=_ancestors(body), type=body.u16())
            b['dims'] = [body.i32() for _ in range(body.u16())]
        elif tag == 7:
            b.update(kind='enum', id=body.uuid(), name=body.string(), schema_defined=body.boolean(),
                     ancestors=_ancestors(body))
            b['members'] = [body.string() for _ in range(body.u16())]
        elif tag == 8:
            b.update(kind='input', id=body.uuid())
            els = []
            for _ in range(body.u16()):
                flags = body.u32()
                card = body.u8()
                name = body.string()
                els.append(dict(flags=flags, card=card, name=name, type=body.u16()))
            b['elements'] = els
        elif tag in (9, 12):
            b.update(kind='range' if tag == 9 else 'multirange', id=body.uuid(), name=body.string(),
                     schema_defined=body.boolean(), ancestors=_ancestors(body), type=body.u16())
        elif tag == 10:
            b.update(kind='objtype', id=body.uuid(), name=body.string(), schema_defined=body.boolean())
        elif tag == 11:
            b.update(kind='compound', id=body.uuid(), name=body.string(), schema_defined=body.boolean(),
                     op=body.u8())
            b['components'] = [body.u16() for _ in range(body.u16())]
        elif tag == 127 or tag >= 0x80:
            annos.append(dict(tag=tag, descriptor=body.u16(), key=body.string() if tag == 127 else None))
            continue
        else:
            raise DecodeError(f'unknown descriptor tag {tag}')
        if not body.eof():
            raise DecodeError(f'{b["kind"]} block: {len(body.b) - body.i} trailing bytes')
        blocks.append(b)
    return blocks, annos


def tree(blocks, idx, depth=0):
    if depth > 60:
        raise DecodeError('descriptor reference cycle')
    if idx >= len(blocks):
        raise DecodeError(f'reference to block {idx} of {len(blocks)}')
    b = blocks[idx]
    k = b['kind']

    def sub(i):
        if i >= idx:
            raise DecodeError(f'block {idx} ({k}) refers forward/self to {i}')
        return tree(blocks, i, depth + 1)
    if k == 'set':
        return ('set', sub(b['type']))
    if k == 'scalar':
        return ('scalar', b['name'])
    if k == 'enum':
        return ('enum', b['name'], list(b['members']))
    if k == 'tuple':
        return ('tuple', [sub(i) for i in b['elements']])
    if k == 'namedtuple':
        return ('namedtuple', [(n, sub(i)) for n, i in b['elements']])
    if k == 'array':
        return ('array', sub(b['type']))
    if k in ('range', 'multirange'):
        return (k, sub(b['type']))
    if k == 'objtype':
        return ('objtype', b['name'])
    if k == 'compound':
        return ('compound', b['op'], sorted(repr(sub(i)) for i in b['components']))
    if k == 'shape':
        ot = None if b['ephemeral'] else sub(b['type'])
        els = []
        for e in b['elements']:
            if e['card'] not in CARD:
                raise DecodeError(f'unknown cardinality byte {e["card"]:#x}')
            els.append((e['name'], e['flags'], CARD[e['card']], sub(e['type']),
                        None if b['ephemeral'] else sub(e['source'])))
        return ('shape', ot, els)
    if k == 'input':
        els = []
        for e in b['elements']:
            if e['card'] not in CARD:
                raise DecodeError(f'unknown cardinality byte {e["card"]:#x}')
            els.append((e['name'], CARD[e['card']], sub(e['type'])))
        return ('input', els)
    raise DecodeError(k)
