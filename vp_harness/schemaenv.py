"""Schema-level helpers shared by C02/C03/C04/C10/C11: loading SDL, computing and
applying migrations the way the server does in test mode, and the two
comparators (maintainers' diff; independent semantic dump)."""
from __future__ import annotations

from vp_harness import env

_S = {}


def setup():
    if _S:
        return _S
    tb = env.load_std()
    from edb import errors, edgeql
    from edb.edgeql import parser as qlparser
    from edb.schema import ddl as s_ddl, schema as s_schema, delta as sd
    qlparser.preload_spec()
    _S.update(tb=tb, errors=errors, edgeql=edgeql, qlparser=qlparser,
              s_ddl=s_ddl, s_schema=s_schema, sd=sd, std=tb._load_std_schema())
    return _S


class Rejected(Exception):
    """the system rejected the input (outside the property's domain)"""


class Crashed(Rejected):
    """the system raised an internal (non-EdgeDBError) exception: the input was not accepted
    either, so the properties about *accepted* migrations say nothing; counted separately"""


def target_from_sdl(sdl_text):
    """the reference schema for an SDL document: apply_sdl on the standard
    library only (no migration machinery involved)"""
    S = setup()
    try:
        doc = S['qlparser'].parse_sdl(sdl_text)
        schema, _warn = S['s_ddl'].apply_sdl(
            doc, base_schema=S['std'], current_schema=S['std'], testmode=True)
        return schema
    except S['errors'].EdgeDBError as e:
        raise Rejected(f'{type(e).__name__}: {e}') from e
    except (LookupError, AssertionError, AttributeError, TypeError, ValueError, RecursionError) as e:
        raise Crashed(f'internal {type(e).__name__}: {e}') from e


def migrate(schema, sdl_text):
    """START MIGRATION TO {..}; POPULATE MIGRATION; COMMIT MIGRATION, as
    edb.testbase.lang.run_ddl does it"""
    S = setup()
    try:
        return S['tb'].BaseSchemaTest.run_ddl(
            schema,
            f'START MIGRATION TO {{ {sdl_text} }};\nPOPULATE MIGRATION;\n'
            f'COMMIT MIGRATION;')
    except S['errors'].EdgeDBError as e:
        raise Rejected(f'{type(e).__name__}: {e}') from e
    except (LookupError, AssertionError, AttributeError, TypeError, ValueError, RecursionError) as e:
        raise Crashed(f'internal {type(e).__name__}: {e}') from e


def run_ddl(schema, ddl_text):
    S = setup()
    try:
        return S['tb'].BaseSchemaTest.run_ddl(schema, ddl_text)
    except S['errors'].EdgeDBError as e:
        raise Rejected(f'{type(e).__name__}: {e}') from e
    except (LookupError, AssertionError, AttributeError, TypeError, ValueError, RecursionError) as e:
        raise Crashed(f'internal {type(e).__name__}: {e}') from e


def last_migration_script(schema):
    m = schema.get_last_migration()
    return m.get_script(schema) if m is not None else None


def diff_is_empty(a, b):
    """maintainers' definition: delta_schemas has no sub-commands (migration
    history objects excluded: they differ by construction)"""
    S = setup()
    from edb.schema import migrations as s_mig
    d = S['s_ddl'].delta_schemas(
        a, b,
        schema_a_filters=[lambda s, o: not isinstance(o, s_mig.Migration)],
        schema_b_filters=[lambda s, o: not isinstance(o, s_mig.Migration)])
    subs = list(d.get_subcommands())
    if subs:
        try:
            text = S['s_ddl'].text_from_delta(a, b, d) if False else repr(subs[:3])
        except Exception:
            text = repr(subs[:3])
        return False, text
    return True, ''


def compare(r, t, what='result vs target', deltas=True):
    """both comparators; -> (sig, detail) or None"""
    from vp_harness.oracles import semdump as SD
    dr, dt = SD.semdump(r), SD.semdump(t)
    if dr != dt:
        return ('semdump:' + str(SD.first_diff_sig(dr, dt)),
                f'{what}: independent dump differs: ' + '; '.join(SD.diff(dr, dt, 4)))
    if not deltas:
        return None
    ok, txt = diff_is_empty(r, t)
    rev = ''
    if ok:
        ok, txt = diff_is_empty(t, r)
        rev = '-reverse'
    if not ok:
        # root cause: which (bookkeeping) field the maintainers' diff reacts to
        br = SD.semdump(r, bookkeeping=True)
        bt = SD.semdump(t, bookkeeping=True)
        fields = SD.all_diff_fields(br, bt)
        why = '+'.join(fields) if fields else None
        if why is None:
            br = SD.semdump(r, bookkeeping=True, raw_expr=True)
            bt = SD.semdump(t, bookkeeping=True, raw_expr=True)
            why = SD.first_diff_sig(br, bt)
            why = ('expr-text-only:' + why) if why else 'no-visible-field'
        return (f'delta-nonempty{rev}:{why}',
                f'{what}: delta_schemas(result, target) is not empty (the server would '
                f'answer "cannot commit incomplete migration"): {txt[:300]}; '
                + '; '.join(SD.diff(br, bt, 3)))
    return None


def user_object_count(schema):
    from edb.schema import migrations as s_mig
    return sum(1 for o in schema.get_objects(exclude_stdlib=True, exclude_global=True)
               if not isinstance(o, s_mig.Migration))
