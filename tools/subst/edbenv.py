"""import edbenv  -> $VERIF_REPO on sys.path + native stand-ins installed.  See README.md."""
from __future__ import annotations
import hashlib, os, pathlib, pickle, sys, uuid
_HERE = pathlib.Path(__file__).resolve().parent
sys.path.insert(0, str(_HERE / 'substrate'))
import shim  # noqa: E402
REPO = pathlib.Path(shim.REPO)
CACHE = _HERE / '.cache'


def tree_hash() -> str:
    h = hashlib.sha256()
    root = REPO / 'edb'
    for dirpath, dirnames, filenames in os.walk(root):
        dirnames[:] = sorted(d for d in dirnames if d != '__pycache__')
        for fn in sorted(filenames):
            if fn.endswith(('.pyc', '.so', '.bc', '.log')):
                continue
            p = os.path.join(dirpath, fn)
            h.update(os.path.relpath(p, root).encode() + b'\0')
            try:
                with open(p, 'rb') as f:
                    h.update(hashlib.sha256(f.read()).digest())
            except OSError:
                pass
    return h.hexdigest()[:24]


_loaded = False


def load_std():
    global _loaded
    from edb.testbase import lang as tb
    if _loaded:
        return tb
    f = CACHE / tree_hash() / 'std.pickle'
    if f.exists():
        try:
            with open(f, 'rb') as fh:
                tb._std_schema, tb._refl_schema, tb._schema_class_layout = pickle.load(fh)
            _loaded = True
            return tb
        except Exception:
            pass
    tb._load_std_schema()
    tb._load_reflection_schema()
    f.parent.mkdir(parents=True, exist_ok=True)
    tmp = f.with_suffix(f'.{os.getpid()}')
    with open(tmp, 'wb') as fh:
        pickle.dump((tb._std_schema, tb._refl_schema, tb._schema_class_layout), fh)
    os.replace(tmp, f)
    _loaded = True
    return tb


def new_compiler():
    return load_std().new_compiler()


class Req:
    """Duck-typed stand-in for rpc.CompilationRequest (a Cython class that is not built here)."""

    def __init__(self, text, *, modaliases=None, session_config=None, protocol_version=None,
                 output_format=None, inline_typeids=False, inline_typenames=False,
                 inline_objectids=True, expect_one=False, implicit_limit=0):
        from edb import edgeql
        from edb.server import defines
        from edb.server.compiler import enums
        self.source = edgeql.Source.from_string(text)
        self.input_language = enums.InputLanguage.EDGEQL
        self.protocol_version = protocol_version or defines.CURRENT_PROTOCOL
        self.output_format = output_format or enums.OutputFormat.BINARY
        self.input_format = enums.InputFormat.BINARY
        self.expect_one = expect_one
        self.implicit_limit = implicit_limit
        self.inline_typeids = inline_typeids
        self.inline_typenames = inline_typenames
        self.inline_objectids = inline_objectids
        self.modaliases = modaliases
        self.session_config = session_config
        self.role_name = 'admin'
        self.branch_name = 'main'

    def get_cache_key(self):
        return uuid.uuid4()


def compile(compiler, text, *, state=None, txid=None, user_schema=None, req=None, **reqkw):
    """Compiler.compile (state is None) or Compiler.compile_in_tx -> (QueryUnitGroup, state)"""
    import immutables
    from edb.schema import schema as s_schema
    E = immutables.Map()
    req = req or Req(text, **reqkw)
    if state is None:
        return compiler.compile(
            user_schema=user_schema if user_schema is not None else s_schema.EMPTY_SCHEMA,
            global_schema=s_schema.EMPTY_SCHEMA, reflection_cache=E,
            database_config=E, system_config=E, request=req)
    return compiler.compile_in_tx(state=state, txid=txid, request=req)
